// C06 — reusable handles are never changed by the chains and queries derived
// from them.
//
// Explicit-state search (E3) over histories on a tree of reusable handles,
// executed on the real gorm code: a base chain of <=3 calls is turned into a
// reusable handle H (Session / WithContext / Debug / Begin, or the gorm.Open
// handle itself); two chains A and B of <=2 calls are derived from H, built and
// executed in every interleaving (a fork may also be turned into a handle of
// its own); H itself is executed in between.
//
// Oracle (self-differential, no SQL literal anywhere): after every transition
// the SQL text + bound values (+ error) produced by every finished chain and by
// probes (Find / Update / Create executed directly on the handle) of every live
// reusable handle equal what the same call list produces when it is replayed
// alone on a fresh gorm.Open. On SQLite the observation is the statement log of
// the recording driver (incl. preload queries) + RowsAffected.
//
// Files: model.go (models, alphabet, finishers), engine.go (history execution,
// oracle, tags), main.go (enumeration plan, reporting).
//
// Development aids (environment): C06_PLAN=1 print the enumeration plan and
// exit; C06_ONLY=P1-WHERE,PR- restrict to blocks (evidence is then marked not
// exhaustive); C06_BUDGET=30m override the internal deadline; C06_DUMP=1 print
// one line per violation to stderr and never stop early; C06_PROF=file.
package main

import (
	"encoding/json"
	"fmt"
	"os"
	"path/filepath"
	"runtime/debug"
	"runtime/pprof"
	"sort"
	"strings"
	"sync"
	"sync/atomic"
	"syscall"
	"time"

	"verif/mc"
)

// cpuTime: user+system CPU time consumed by this process so far.
func cpuTime() time.Duration {
	var ru syscall.Rusage
	if err := syscall.Getrusage(syscall.RUSAGE_SELF, &ru); err != nil {
		return 0
	}
	return time.Duration(ru.Utime.Nano() + ru.Stime.Nano())
}

// seqs returns all sequences over alphabet with minLen <= length <= maxLen.
func seqs(alphabet []int, minLen, maxLen int) [][]int {
	var out [][]int
	prev := [][]int{{}}
	if minLen == 0 {
		out = append(out, []int{})
	}
	for l := 1; l <= maxLen; l++ {
		var next [][]int
		for _, p := range prev {
			for _, a := range alphabet {
				next = append(next, append(append([]int{}, p...), a))
			}
		}
		if l >= minLen {
			out = append(out, next...)
		}
		prev = next
	}
	return out
}

// plan is a block of the enumeration: bases x makers x forksA x forksB x
// finisher pairs x schedules x probe modes.
type plan struct {
	Name   string
	Real   bool
	Bases  [][]int
	Makers []int
	ForksA [][]int
	ForksB [][]int
	Fins   [][2]int
	Scheds [][]event
	Modes  []bool // dense?
	// PerBase: one unit of work per (base, maker) instead of per (base, maker, fork A)
	PerBase bool
	// Prefix: part of the quick enumeration executed first in the thorough tier
	Prefix bool
	// Probes / Writes: see hist
	Probes []int
	Writes bool
}

func (p *plan) size() int64 {
	return int64(len(p.Bases)) * int64(len(p.Makers)) * int64(len(p.ForksA)) * int64(len(p.ForksB)) * int64(len(p.Fins)) * int64(len(p.Scheds)) * int64(len(p.Modes))
}

// unit of work: one (plan, base, maker, forkA)
type unit struct {
	p     *plan
	base  []int
	maker int
	a     []int // nil with p.PerBase: all of p.ForksA
}

var (
	sABab = []event{{Kind: evBuildA}, {Kind: evBuildB}, {Kind: evExecA}, {Kind: evExecB}}
	sABba = []event{{Kind: evBuildA}, {Kind: evBuildB}, {Kind: evExecB}, {Kind: evExecA}}
	sAaBb = []event{{Kind: evBuildA}, {Kind: evExecA}, {Kind: evBuildB}, {Kind: evExecB}}
)

func baseScheds() [][]event { return [][]event{sABab, sABba, sAaBb} }

// withExecH inserts one execution of the handle itself at every gap.
func withExecH(scheds [][]event, fins []int) [][]event {
	var out [][]event
	for _, s := range scheds {
		for pos := 0; pos <= len(s); pos++ {
			for _, f := range fins {
				n := append([]event{}, s[:pos]...)
				n = append(n, event{Kind: evExecH, Fin: f})
				n = append(n, s[pos:]...)
				out = append(out, n)
			}
		}
	}
	return out
}

// withHandleExec: one execution of a finisher directly on a live reusable handle — the base handle H at
// every gap, the handle made from fork A (FinA must be fHandle) at every gap after "exec A".
func withHandleExec(scheds [][]event, fins []int) [][]event {
	var out [][]event
	for _, s := range scheds {
		aIsHandleFrom := len(s) + 1
		for i, e := range s {
			if e.Kind == evExecA {
				aIsHandleFrom = i + 1
			}
		}
		for pos := 0; pos <= len(s); pos++ {
			for _, f := range fins {
				kindsAt := []byte{evExecH}
				if pos >= aIsHandleFrom {
					kindsAt = append(kindsAt, evExecHA)
				}
				for _, k := range kindsAt {
					n := append([]event{}, s[:pos]...)
					n = append(n, event{Kind: k, Fin: f})
					n = append(n, s[pos:]...)
					out = append(out, n)
				}
			}
		}
	}
	return out
}

func pairs(fs ...int) [][2]int {
	var out [][2]int
	for _, a := range fs {
		for _, b := range fs {
			out = append(out, [2]int{a, b})
		}
	}
	return out
}

func dedupPairs(in [][2]int) [][2]int {
	seen := map[[2]int]bool{}
	var out [][2]int
	for _, p := range in {
		if !seen[p] {
			seen[p] = true
			out = append(out, p)
		}
	}
	return out
}

func opsUpTo(maxTier int) []int {
	var out []int
	for i, o := range ops {
		if o.Tier <= maxTier {
			out = append(out, i)
		}
	}
	return out
}

// union returns a followed by the members of b that are not in a.
func union(a, b [][]int) [][]int {
	seen := map[string]bool{}
	out := append([][]int{}, a...)
	for _, x := range a {
		seen[fmt.Sprint(x)] = true
	}
	for _, x := range b {
		if !seen[fmt.Sprint(x)] {
			seen[fmt.Sprint(x)] = true
			out = append(out, x)
		}
	}
	return out
}

// innerExecH: the handle itself executed at the inner gaps of a schedule.
func innerExecH(scheds [][]event, fins []int, inner bool) [][]event {
	all := withExecH(scheds, fins)
	if !inner {
		return all
	}
	var out [][]event
	for _, s := range all {
		if s[0].Kind != evExecH && s[len(s)-1].Kind != evExecH {
			out = append(out, s)
		}
	}
	return out
}

func buildPlans(tier string) []*plan {
	var plans []*plan
	thorough := tier == "thorough"
	both := []bool{true, false}

	// finisher pairs (fork A, fork B)
	core := dedupPairs(append(pairs(fFind, fUpdate, fHandle),
		[2]int{fCreate, fCreate}, [2]int{fCreate, fHandle}, [2]int{fHandle, fCreate},
		[2]int{fCount, fFind}, [2]int{fFind, fCount}, [2]int{fCount, fHandle},
		[2]int{fFirst, fFirst}, [2]int{fFirst, fHandle},
		[2]int{fDelete, fDelete}, [2]int{fHandle, fDelete},
		[2]int{fPluck, fHandle}, [2]int{fFirstOrInit, fHandle}, [2]int{fSave, fHandle}, [2]int{fTake, fScan}, [2]int{fLast, fHandle},
		[2]int{fFindInBatches, fHandle}, [2]int{fFirstOrCreate, fHandle}, [2]int{fCreateInBatches, fAssocFind}, [2]int{fAssocCount, fHandle}))
	all := dedupPairs(append(pairs(fFind, fFirst, fCount, fUpdate, fDelete, fCreate, fHandle), core...))
	few := [][2]int{{fHandle, fHandle}, {fFind, fUpdate}, {fUpdate, fCreate}, {fCount, fFirst}, {fDelete, fFind}, {fCreate, fHandle}}

	// P1: same kind — the base and both forks are drawn from the variants of one clause kind
	for _, k := range kinds {
		quickV := opsOf(k, tQuick)
		deep := quickV
		wide := quickV
		if thorough {
			deep = opsOf(k, tCross)
			wide = opsOf(k, tThor)
		}
		big := len(quickV) > 2 // WHERE
		fins := core[:21]
		if !thorough {
			fins = core[:15]
		}
		if big && !thorough {
			fins = core[:9]
		}
		if thorough && len(wide) <= 2 {
			fins = all
		}
		if thorough && big {
			fins = core[:12]
		}
		deepBases := seqs(quickV, 0, 3)
		deepForks := seqs(quickV, 1, 2)
		bases := union(union(deepBases, seqs(deep, 1, 2)), seqs(wide, 1, 1))
		forks := union(union(deepForks, seqs(deep, 1, 1)), seqs(wide, 1, 1))
		if thorough && !big {
			bases = union(bases, seqs(wide, 1, 2))
			if len(wide) <= 4 {
				bases = union(bases, seqs(wide, 3, 3))
			}
		}
		plans = append(plans, &plan{Name: "P1-" + k, Bases: bases, Makers: []int{mkSession}, ForksA: forks, ForksB: forks, Fins: fins, Scheds: baseScheds(), Modes: both})
		// the other two handle makers with few finisher pairs
		mscheds := baseScheds()
		if !thorough {
			mscheds = [][]event{sABab, sAaBb}
		}
		mf := few[:2]
		if big && !thorough {
			mf = few[:1]
		}
		if thorough {
			mf = few[:4]
		}
		plans = append(plans, &plan{Name: "P1m-" + k, Bases: deepBases, Makers: []int{mkContext, mkDebug}, ForksA: deepForks, ForksB: deepForks, Fins: mf, Scheds: mscheds, Modes: both})
		// the handle itself executed in between (without the dense probes, which execute it at every gap anyway)
		hf := []int{fFind}
		hfins := few[:2]
		if big && !thorough {
			hfins = few[1:2]
		}
		if thorough {
			hf = []int{fFind, fCount}
		}
		plans = append(plans, &plan{Name: "P1h-" + k, Bases: deepBases, Makers: []int{mkSession}, ForksA: deepForks, ForksB: deepForks, Fins: hfins, Scheds: innerExecH(baseScheds(), hf, !thorough), Modes: []bool{false}})
	}

	// P0: the forks start at the gorm.Open handle itself (and at Session/WithContext/Debug of it)
	{
		al := opsUpTo(tQuick)
		f0 := few[:4]
		if thorough {
			al = opsUpTo(tThor)
			f0 = few
		}
		plans = append(plans, &plan{Name: "P0-open", Bases: seqs(nil, 0, 0), Makers: []int{mkOpen, mkContext, mkDebug}, ForksA: seqs(al, 1, 1), ForksB: seqs(al, 1, 1), Fins: f0, Scheds: baseScheds(), Modes: both})
	}

	// PH: every finisher of the alphabet executed directly ON a live reusable handle (the base handle at every
	// gap, the handle made from fork A after it exists), the handle's base chain ranging over every clause
	// kind; then forks and probes of the same handles as usual. Dry (12 finishers) and on SQLite (9 read-only ones).
	{
		where := opByLabel[`Where("name = ?","w")`]
		order := opByLabel[`Order("name")`]
		limit := opByLabel[`Limit(5)`]
		for _, k := range kinds {
			v := opsOf(k, tCross)
			if len(v) > 3 {
				v = v[:3]
			}
			if len(v) == 0 {
				continue
			}
			bases := seqs(v, 1, 2)
			if thorough {
				bases = union(seqs(v, 1, 3), seqs(opsOf(k, tThor), 1, 1))
			}
			fa := union([][]int{{v[0]}}, [][]int{{where}, {order}})
			fb := union([][]int{{v[len(v)-1]}}, [][]int{{limit}})
			fins := [][2]int{{fHandle, fFind}}
			if thorough {
				fins = [][2]int{{fHandle, fFind}, {fHandle, fUpdate}}
			}
			scheds := [][]event{sAaBb, sABab}
			plans = append(plans, &plan{Name: "PH-" + k, Bases: bases, Makers: []int{mkSession}, ForksA: fa, ForksB: fb, Fins: fins, Scheds: withHandleExec(scheds, dryHandleFins), Modes: both, PerBase: true})
			msc := withHandleExec(scheds[:1], dryHandleFins)
			if !thorough {
				// the handle executed right after it was made, or after the first chain was executed
				var sel [][]event
				for _, sq := range msc {
					if sq[0].Kind == evExecH || sq[2].Kind == evExecH || sq[2].Kind == evExecHA {
						sel = append(sel, sq)
					}
				}
				msc = sel
			}
			plans = append(plans, &plan{Name: "PHm-" + k, Bases: bases, Makers: []int{mkContext, mkDebug}, ForksA: fa, ForksB: fb, Fins: fins[:1], Scheds: msc, Modes: []bool{true}, PerBase: true})
			if k == "RETURNING" || k == "ONCONFLICT" || k == "LOCKING" {
				continue
			}
			rfins := [][2]int{{fHandle, fFind}}
			phrModes := []bool{true}
			if thorough {
				phrModes = both
			}
			plans = append(plans, &plan{Name: "PHR-" + k, Real: true, Bases: bases, Makers: []int{mkSession, mkBegin}, ForksA: fa, ForksB: fb[:1], Fins: rfins, Scheds: withHandleExec(scheds[:1], realHandleFins), Modes: phrModes, PerBase: true})
		}
		// two-call bases over the whole quick alphabet (any two kinds), the handle executed right after it was made
		// and once more after a first chain was executed
		q := opsUpTo(tQuick)
		var sc [][]event
		for _, f := range dryHandleFins {
			sc = append(sc, []event{{Kind: evExecH, Fin: f}, {Kind: evBuildA}, {Kind: evExecA}, {Kind: evBuildB}, {Kind: evExecB}})
			sc = append(sc, []event{{Kind: evBuildA}, {Kind: evExecA}, {Kind: evExecH, Fin: f}, {Kind: evBuildB}, {Kind: evExecB}})
		}
		plans = append(plans, &plan{Name: "PH2-any-two-kinds", Bases: seqs(q, 2, 2), Makers: []int{mkSession}, ForksA: [][]int{{where}}, ForksB: [][]int{{limit}}, Fins: [][2]int{{fFind, fUpdate}}, Scheds: sc, Modes: []bool{true}, PerBase: true})
	}

	// PI: chain calls with an argument they cannot translate (they record an error): built on a fork (executed,
	// turned into a handle, or abandoned) or as part of the base; the error must stay on that chain.
	{
		var inv []int
		for i, o := range ops {
			if o.Tier == tInvalid {
				inv = append(inv, i)
			}
		}
		q := opsUpTo(tQuick)
		where := opByLabel[`Where("name = ?","w")`]
		limit := opByLabel[`Limit(5)`]
		abandonA := []event{{Kind: evBuildA}, {Kind: evBuildB}, {Kind: evExecB}}
		sc := append(baseScheds(), abandonA)
		bases := seqs(q, 0, 1)
		if thorough {
			bases = seqs(q, 0, 2)
		}
		fb := [][]int{{where}, {limit}}
		fins := [][2]int{{fFind, fFind}, {fHandle, fUpdate}}
		plans = append(plans, &plan{Name: "PI-invalid-fork", Bases: bases, Makers: []int{mkSession, mkContext, mkDebug}, ForksA: seqs(inv, 1, 1), ForksB: fb, Fins: fins, Scheds: sc, Modes: both, PerBase: true})
		plans = append(plans, &plan{Name: "PI-invalid-fork-open", Bases: seqs(nil, 0, 0), Makers: []int{mkOpen}, ForksA: seqs(inv, 1, 1), ForksB: fb, Fins: fins, Scheds: sc, Modes: both, PerBase: true})
		plans = append(plans, &plan{Name: "PI-invalid-base", Bases: seqs(inv, 1, 1), Makers: []int{mkSession, mkContext, mkDebug}, ForksA: seqs(q, 1, 1), ForksB: fb, Fins: fins[:1], Scheds: sc[:1], Modes: both, PerBase: true})
		plans = append(plans, &plan{Name: "PIR-invalid-fork", Real: true, Bases: seqs(nil, 0, 0), Makers: []int{mkSession, mkBegin}, ForksA: seqs(inv, 1, 1), ForksB: fb, Fins: [][2]int{{fFind, fFind}, {fHandle, fCount}}, Scheds: sc, Modes: both, PerBase: true})
	}

	// PM: one handle used with two models whose fields of the same Go name map to different columns: Select/Omit by
	// Go field name in the base, forks that choose the model (Model(&Pet{}) / Model(&User{}) / Table / the
	// destination of the finisher).
	// PQ: a call kind already present in the base is repeated by a fork with another argument, for every piece of
	// statement state held through a pointer or a map (TableExpr, Model, clause values, Selects/Omits, Preloads,
	// Joins, Settings, Distinct/Unscoped flags); the other fork does not touch that kind. Schedules include
	// "build A, build B, exec A" with B abandoned.
	{
		lab := func(ls ...string) []int {
			var out []int
			for _, l := range ls {
				i, ok := opByLabel[l]
				if !ok {
					panic("unknown chain call " + l)
				}
				out = append(out, i)
			}
			return out
		}
		abandonB := []event{{Kind: evBuildA}, {Kind: evBuildB}, {Kind: evExecA}}
		sc := append(baseScheds(), abandonB)
		mm := lab(`Select("Name")`, `Select("Name","Age")`, `Select([]string{"Age"})`, `Omit("Age")`, `Omit("Name","CompanyID")`)
		mbases := union(seqs(mm, 1, 1), [][]int{lab(`Select("Name")`, `Omit("Age")`), lab(`Select([]string{"Age"})`, `Select("Name")`), lab(`Distinct()`, `Select("Name")`), lab(`Omit("Age")`, `Limit(5)`)})
		if thorough {
			mbases = seqs(mm, 1, 2)
		}
		mforks := [][]int{lab(`Where("name = ?","w")`), lab(`Model(&Pet{})`), lab(`Model(&User{})`), lab(`Table("pets")`), lab(`Limit(5)`)}
		mfins := dedupPairs(append(pairs(fFind, fFindPets, fHandle), [2]int{fCountPets, fFind}, [2]int{fFind, fCreatePet}, [2]int{fUpdate, fFindPets}, [2]int{fFindPets, fCreate}))
		plans = append(plans, &plan{Name: "PM-two-models", Bases: mbases, Makers: []int{mkSession}, ForksA: mforks, ForksB: mforks, Fins: mfins, Scheds: sc, Modes: both, PerBase: true})
		plans = append(plans, &plan{Name: "PMm-two-models", Bases: mbases, Makers: []int{mkContext, mkDebug}, ForksA: mforks[1:4], ForksB: mforks[:3], Fins: mfins[:4], Scheds: sc[2:], Modes: []bool{true}, PerBase: true})
		rfins := dedupPairs(append(pairs(fFind, fFindPets), [2]int{fHandle, fFindPets}, [2]int{fFindPets, fHandle}, [2]int{fCountPets, fFind}))
		plans = append(plans, &plan{Name: "PMR-two-models", Real: true, Bases: mbases, Makers: []int{mkSession, mkBegin}, ForksA: mforks, ForksB: mforks[:3], Fins: rfins, Scheds: sc[1:], Modes: []bool{false}, PerBase: true})

		other := lab(`Where("name = ?","w")`)
		rep := map[string][]int{
			"TABLE":      lab(`Table("users")`, `Table("pets")`, `Table("users AS u")`, `Table("(SELECT * FROM users WHERE age > ?) AS u",18)`, `Table("main.users")`),
			"MODEL":      lab(`Model(&User{})`, `Model(&Pet{})`, `Model(&User{ID:4})`),
			"LOCKING":    lab(`Clauses(Locking{UPDATE})`, `Clauses(Locking{SHARE NOWAIT})`),
			"ONCONFLICT": lab(`Clauses(OnConflict{DoNothing})`, `Clauses(OnConflict{id -> name})`, `Clauses(OnConflict{UpdateAll})`),
			"LIMIT":      lab(`Limit(5)`, `Limit(2)`, `Offset(3)`, `Clauses(Limit{Limit:&4,Offset:1})`),
			"SELECT":     lab(`Select([]string{"name"})`, `Select("Name")`, `Distinct()`, `Distinct("name")`),
			"OMIT":       lab(`Omit("age")`, `Omit("Age")`, `Omit("name","company_id")`),
			"UNSCOPED":   lab(`Unscoped()`, `Where("name = ?","w")`),
			"PRELOAD":    lab(`Preload("Company")`, `Preload("Company","name = ?","pc")`),
			"JOINS":      lab(`Joins("Company")`, `InnerJoins("Company")`, `Joins("Company",db.Or("name = ?","pc").Where("id > ?",0))`),
			"SETTINGS":   lab(`Set("c06:k","v1")`, `Set("c06:k","v2")`, `InstanceSet("c06:k","i1")`),
			"RETURNING":  lab(`Clauses(Returning{name})`, `Clauses(Returning{})`, `Clauses(Returning{id,company_id})`),
		}
		var names []string
		for k := range rep {
			names = append(names, k)
		}
		sort.Strings(names)
		qfins := [][2]int{{fFind, fFind}, {fHandle, fUpdate}, {fCreate, fHandle}}
		for _, k := range names {
			v := rep[k]
			bases := seqs(v, 1, 1)
			if len(v) <= 3 || thorough {
				bases = seqs(v, 1, 2)
			}
			forks := union(seqs(v, 1, 1), [][]int{other})
			plans = append(plans, &plan{Name: "PQ-repeat-" + k, Bases: bases, Makers: []int{mkSession}, ForksA: forks, ForksB: forks, Fins: qfins, Scheds: sc, Modes: both, PerBase: true})
			plans = append(plans, &plan{Name: "PQm-repeat-" + k, Bases: seqs(v, 1, 1), Makers: []int{mkContext, mkDebug}, ForksA: forks, ForksB: forks, Fins: qfins[1:2], Scheds: sc[3:], Modes: []bool{true}, PerBase: true})
			switch k {
			case "TABLE", "MODEL", "LIMIT", "SELECT", "PRELOAD", "JOINS", "OMIT":
				plans = append(plans, &plan{Name: "PQR-repeat-" + k, Real: true, Bases: seqs(v, 1, 1), Makers: []int{mkSession, mkBegin}, ForksA: forks, ForksB: forks, Fins: [][2]int{{fFind, fFind}, {fHandle, fCount}}, Scheds: sc[2:], Modes: []bool{false}, PerBase: true})
			}
		}
	}

	// (at most one fork creates: with the owner's own columns deselected the new key comes from the table's
	// AUTOINCREMENT sequence, which a second create would see advanced)
	// PA/PAR: handles that select / omit associations (has-many with a nested has-one, has-one, many2many), used by
	// two chains that write (Delete / Save / Create / Updates on disjoint rows with explicit keys), DryRun and on
	// SQLite (tables reseeded per history, statement logs compared as multisets).
	// PG: conditions built from clause.Or / clause.And expressions, and the handle passed as the SOLE group
	// condition of a chain that starts at the Open handle (Unscoped / a model without soft delete), followed by
	// later chains of the handle.
	{
		lab := func(ls ...string) []int {
			var out []int
			for _, l := range ls {
				i, ok := opByLabel[l]
				if !ok {
					panic("unknown chain call " + l)
				}
				out = append(out, i)
			}
			return out
		}
		abandonB := []event{{Kind: evBuildA}, {Kind: evBuildB}, {Kind: evExecA}}
		sc := append(baseScheds(), abandonB)
		sel := lab(`Select("Dogs")`, `Select("Dogs","Dogs.Toy")`, `Select("Name","Dogs","Dogs.Toy","Profile")`, `Select(clause.Associations)`, `Select(clause.Associations,"Dogs.Toy")`, `Select("Profile","Langs")`, `Omit("Dogs.Toy")`, `Omit("Langs","Profile")`, `Omit(clause.Associations)`)
		abases := seqs(sel, 1, 1)
		abases = union(abases, [][]int{lab(`Select("Dogs","Dogs.Toy")`, `Omit("Langs","Profile")`), lab(`Select(clause.Associations)`, `Omit("Dogs.Toy")`), lab(`Where("name <> ?","zz")`, `Select("Dogs","Dogs.Toy")`)})
		if thorough {
			abases = union(abases, seqs(sel, 2, 2))
		}
		aforks := [][]int{lab(`Where("name <> ?","zz")`), lab(`Unscoped()`), lab(`Omit("Dogs.Toy")`), lab(`Select("Dogs")`)}
		wfins := [][2]int{{fDelOwner1, fDelOwner2}, {fSaveOwner1, fSaveOwner2}, {fCreateOwnerA, fSaveOwner2}, {fUpdatesOwner1, fUpdatesOwner2}, {fDelOwner1, fSaveOwner2}, {fCreateOwnerA, fDelOwner2}, {fUpdatesOwner1, fCreateOwnerB}, {fHandle, fDelOwner2}, {fDelOwner1, fHandle}, {fSaveOwner1, fFindOwners}}
		aprobes := []int{fState, fFindOwners}
		plans = append(plans, &plan{Name: "PA-assoc-writes", Bases: abases, Makers: []int{mkSession, mkContext}, ForksA: aforks[:2], ForksB: aforks, Fins: wfins, Scheds: sc, Modes: both, PerBase: true, Probes: aprobes, Writes: true})
		rsc := [][]event{sABab, sAaBb}
		rf := wfins[:6]
		if thorough {
			rsc = sc
			rf = wfins
		}
		plans = append(plans, &plan{Name: "PAR-assoc-writes", Real: true, Bases: abases, Makers: []int{mkSession, mkBegin}, ForksA: aforks[:2], ForksB: aforks[:2], Fins: rf, Scheds: rsc, Modes: []bool{false}, PerBase: true, Probes: aprobes, Writes: true})

		g := lab(`Or("age = ?",30)`, `Where("name = ?","w")`, `Where(clause.Or(age > 40),clause.Expr(name = w))`, `Where(clause.And(clause.Or(age > 40),name = w))`, `Or(clause.Or(age > 40,name = w))`, `Where(clause.Or(age > 40),clause.Or(name = w),clause.Expr(id > 0))`)
		gbases := seqs(g, 1, 2)
		if thorough {
			gbases = seqs(g, 1, 3)
		}
		gA := [][]int{lab(`<Open handle>.Unscoped().Where(<parent handle>)`), lab(`<Open handle>.Model(&Company{}).Where(<parent handle>)`), lab(`<Open handle>.Where(<parent handle>)`), lab(`<Open handle>.Unscoped().Not(<parent handle>)`), lab(`Unscoped()`), lab(`Where(<parent handle>)`), lab(`Unscoped()`, `Where(<parent handle>)`)}
		gB := [][]int{lab(`Where("name = ?","w")`), lab(`Unscoped()`), lab(`Limit(5)`), lab(`<Open handle>.Where(<parent handle>)`)}
		gfins := [][2]int{{fFind, fFind}, {fHandle, fUpdate}, {fCount, fHandle}}
		plans = append(plans, &plan{Name: "PG-group-sole-condition", Bases: gbases, Makers: []int{mkSession}, ForksA: gA, ForksB: gB, Fins: gfins, Scheds: sc, Modes: both, PerBase: true})
		plans = append(plans, &plan{Name: "PGm-group-sole-condition", Bases: gbases, Makers: []int{mkContext, mkDebug}, ForksA: gA[:5], ForksB: gB[:2], Fins: gfins[:1], Scheds: sc[2:3], Modes: []bool{true}, PerBase: true})
		plans = append(plans, &plan{Name: "PGR-group-sole-condition", Real: true, Bases: seqs(g, 1, 2), Makers: []int{mkSession}, ForksA: gA[:5], ForksB: gB[:2], Fins: [][2]int{{fFind, fFind}}, Scheds: sc[2:3], Modes: []bool{false}, PerBase: true})
	}

	// PHR2: on SQLite, every finisher executed on a handle whose base mixes two kinds (Count with Group/Distinct/
	// Select, FindInBatches with Limit/Offset/Order, ...)
	{
		var al []int
		for _, l := range []string{`Order("name")`, `Limit(5)`, `Offset(3)`, `Group("name")`, `Distinct()`, `Select([]string{"name"})`, `Where("name = ?","w")`, `Joins("Company")`, `Preload("Company")`, `Model(&User{})`} {
			al = append(al, opByLabel[l])
		}
		if thorough {
			al = append(al, opByLabel[`Model(&User{ID:4})`], opByLabel[`Having("count(*) > ?",1)`], opByLabel[`Unscoped()`], opByLabel[`Select("age","name")`])
		}
		var sc [][]event
		for _, f := range realHandleFins {
			sc = append(sc, []event{{Kind: evExecH, Fin: f}, {Kind: evBuildA}, {Kind: evExecA}, {Kind: evBuildB}, {Kind: evExecB}})
			sc = append(sc, []event{{Kind: evBuildA}, {Kind: evBuildB}, {Kind: evExecH, Fin: f}, {Kind: evExecA}, {Kind: evExecB}})
		}
		plans = append(plans, &plan{Name: "PHR2-two-kinds", Real: true, Bases: seqs(al, 2, 2), Makers: []int{mkSession}, ForksA: [][]int{{opByLabel[`Where("name = ?","w")`]}}, ForksB: [][]int{{opByLabel[`Offset(3)`]}}, Fins: [][2]int{{fFind, fFind}}, Scheds: sc, Modes: []bool{false}, PerBase: true})
	}

	// P2: cross kind — base of <=1 call, forks of one call, any kinds
	crossTier := tCross
	if thorough {
		crossTier = tThor
	}
	cross := opsUpTo(crossTier)
	p2scheds := [][]event{sABab, sAaBb}
	plans = append(plans, &plan{Name: "P2-cross", Bases: seqs(cross, 0, 1), Makers: []int{mkSession}, ForksA: seqs(cross, 1, 1), ForksB: seqs(cross, 1, 1), Fins: few[:2], Scheds: p2scheds, Modes: both})
	if thorough {
		q := opsUpTo(tQuick)
		plans = append(plans, &plan{Name: "P2-cross-deep", Bases: seqs(q, 2, 2), Makers: []int{mkSession}, ForksA: seqs(q, 1, 1), ForksB: seqs(q, 1, 1), Fins: few[:1], Scheds: [][]event{sABab, sAaBb}, Modes: both})
	}

	// P5: every base of two (thorough: also three) calls over the quick alphabet, one fork of one call executed,
	// then a second, fixed fork: does executing a chain change what the handle (or a later chain) produces?
	{
		q := opsUpTo(tQuick)
		bases := seqs(q, 2, 2)
		if thorough {
			bases = seqs(q, 2, 3)
		}
		plans = append(plans, &plan{Name: "P5-exec-then-later-chain", Bases: bases, Makers: []int{mkSession}, ForksA: seqs(q, 1, 1), ForksB: [][]int{{opByLabel[`Limit(5)`]}}, Fins: [][2]int{{fFind, fFind}, {fHandle, fUpdate}}, Scheds: [][]event{sAaBb}, Modes: []bool{true}, PerBase: true})
	}

	// P3: two kinds — base of 2..3 calls over one variant of each of two kinds, forks over the same calls
	// (thorough: once with the first and once with the last variant of each kind, more finisher pairs)
	for i, k1 := range kinds {
		for _, k2 := range kinds[i+1:] {
			rounds := 1
			p3scheds := [][]event{sABab, sAaBb}
			if thorough {
				p3scheds = baseScheds()
			}
			p3fins := [][2]int{{fHandle, fFind}, {fUpdate, fHandle}}
			if thorough {
				rounds = 2
				p3fins = [][2]int{{fHandle, fFind}, {fUpdate, fHandle}, {fCreate, fCount}, {fFirst, fDelete}}
			}
			for r := 0; r < rounds; r++ {
				a1, a2 := opsOf(k1, tThor), opsOf(k2, tThor)
				if len(a1) == 0 || len(a2) == 0 {
					continue
				}
				if r == 1 && len(a1) == 1 && len(a2) == 1 {
					continue
				}
				x1, x2 := a1[0], a2[0]
				if r == 1 {
					x1, x2 = a1[len(a1)-1], a2[len(a2)-1]
				}
				al := []int{x1, x2}
				mixed := func(b []int) bool {
					u1, u2 := false, false
					for _, x := range b {
						if x == x1 {
							u1 = true
						} else {
							u2 = true
						}
					}
					return u1 && u2
				}
				var bases [][]int
				for _, b := range seqs(al, 2, 3) {
					if mixed(b) {
						bases = append(bases, b)
					}
				}
				fk := seqs(al, 1, 1)
				for _, f := range seqs(al, 2, 2) {
					if mixed(f) {
						fk = append(fk, f)
					}
				}
				plans = append(plans, &plan{Name: fmt.Sprintf("P3-%s+%s-%d", k1, k2, r), Bases: bases, Makers: []int{mkSession}, ForksA: fk, ForksB: fk, Fins: p3fins, Scheds: p3scheds, Modes: both})
			}
		}
	}

	// P4 (thorough): every base chain of three calls over the quick alphabet; forks of one call from the
	// quick variants of the clause kinds that occur in the base (only those can alias)
	if thorough {
		q := opsUpTo(tQuick)
		for _, b := range seqs(q, 3, 3) {
			ks := map[string]bool{}
			for _, x := range b {
				ks[ops[x].Kind] = true
			}
			if len(ks) == 1 {
				continue // P1 covers single-kind bases in more depth
			}
			var al []int
			for _, x := range q {
				if ks[ops[x].Kind] {
					al = append(al, x)
				}
			}
			fk := seqs(al, 1, 1)
			plans = append(plans, &plan{Name: "P4-allbases", Bases: [][]int{b}, Makers: []int{mkSession}, ForksA: fk, ForksB: fk, Fins: [][2]int{{fHandle, fHandle}, {fFind, fUpdate}}, Scheds: [][]event{sABab, sAaBb}, Modes: []bool{true}, PerBase: true})
		}
	}

	// PR: real executions on SQLite (Find / Count / Count-then-Find / handle), makers Session and Begin
	realFins := [][2]int{{fFind, fFind}, {fCountFind, fFind}, {fFindInBatches, fFind}, {fHandle, fCount}, {fFind, fCountFind}, {fFind, fFindInBatches}, {fCount, fHandle}, {fCountFind, fHandle}, {fFirst, fCountFind}, {fCount, fCount}, {fFindInBatches, fHandle}, {fTransaction, fAssocFind}, {fRows, fRow}}
	for _, k := range kinds {
		if k == "RETURNING" || k == "ONCONFLICT" || k == "LOCKING" || k == "SESSION" {
			continue // not rendered by queries on SQLite
		}
		al := opsOf(k, tQuick)
		if k == "PRELOAD" {
			al = opsOf(k, tCross) // preloading is only visible on a database
		}
		maxBase := 2
		rf := realFins[:4]
		if len(al) > 2 {
			maxBase = 1
		}
		if thorough {
			maxBase++
			rf = realFins
		}
		bases := seqs(al, 0, maxBase)
		forks := seqs(al, 1, 2)
		if thorough {
			w := opsOf(k, tThor)
			bases = union(bases, seqs(w, 1, 1))
			if len(al) <= 2 {
				forks = union(forks, seqs(w, 1, 1))
			}
		}
		plans = append(plans, &plan{Name: "PR-" + k, Real: true, Bases: bases, Makers: []int{mkSession, mkBegin}, ForksA: forks, ForksB: forks, Fins: rf, Scheds: baseScheds(), Modes: both})
	}
	// real, cross kind, one call each
	rc := opsUpTo(tQuick)
	rb := seqs(nil, 0, 0)
	if thorough {
		rc = opsUpTo(tCross)
		rb = seqs(opsUpTo(tQuick), 0, 1)
	}
	plans = append(plans, &plan{Name: "PR-cross", Real: true, Bases: rb, Makers: []int{mkSession}, ForksA: seqs(rc, 1, 1), ForksB: seqs(rc, 1, 1), Fins: realFins[:2], Scheds: baseScheds()[:2], Modes: []bool{false}})
	return plans
}

func main() {
	args := mc.ParseArgs()
	// the harness allocates many short-lived statements and keeps little (thorough keeps ~10^7 state hashes)
	if args.Tier == "thorough" {
		debug.SetGCPercent(300)
	} else {
		debug.SetGCPercent(800)
	}
	run := mc.NewRun("C06", args.Tier, "model_checking")
	if args.Replay != "" {
		var j HistoryJSON
		if err := mc.LoadReplay(args.Replay, &j); err != nil {
			fmt.Fprintln(os.Stderr, err)
			os.Exit(3)
		}
		hs, err := fromJSON(j)
		if err != nil {
			fmt.Fprintln(os.Stderr, "HARNESS-ERROR:", err)
			os.Exit(3)
		}
		w := newWorker()
		fmt.Printf("history:\n%s\ntrace (every comparison against the isolated replay on a fresh gorm.Open):\n", hs.String())
		f := w.run(hs, true, os.Stdout)
		if f != nil {
			fmt.Printf("\nVIOLATES: %s\ntags: %v\n", f.message(hs), tags(hs))
			os.Exit(1)
		}
		fmt.Println("\nno difference: the history behaves like its isolated replays")
		return
	}

	plans := buildPlans(args.Tier)
	if args.Tier == "thorough" {
		// the quick enumeration runs first (it is a subset of the thorough one; the duplicates cost ~10%):
		// whatever quick finds, thorough finds in its first minutes even if the deadline cuts the rest
		pre := buildPlans("quick")
		for _, p := range pre {
			p.Name = "q:" + p.Name
			p.Prefix = true
		}
		plans = append(pre, plans...)
	}
	if only := os.Getenv("C06_ONLY"); only != "" {
		// development aid: restrict the run to the blocks whose name starts with one of the given prefixes
		var sel []*plan
		for _, p := range plans {
			for _, pre := range strings.Split(only, ",") {
				if strings.HasPrefix(strings.TrimPrefix(p.Name, "q:"), pre) {
					sel = append(sel, p)
					break
				}
			}
		}
		plans = sel
	}
	var units []unit
	var planned int64
	for _, p := range plans {
		planned += p.size()
		for _, b := range p.Bases {
			for _, m := range p.Makers {
				if p.PerBase {
					units = append(units, unit{p: p, base: b, maker: m})
					continue
				}
				for _, a := range p.ForksA {
					units = append(units, unit{p: p, base: b, maker: m, a: a})
				}
			}
		}
	}
	// shortest histories first, so that the first counterexamples reported are the smallest
	sort.SliceStable(units, func(i, j int) bool {
		if units[i].p.Prefix != units[j].p.Prefix {
			return units[i].p.Prefix
		}
		li, lj := len(units[i].base)+len(units[i].a), len(units[j].base)+len(units[j].a)
		if units[i].p.PerBase {
			li++
		}
		if units[j].p.PerBase {
			lj++
		}
		return li < lj
	})
	if pf := os.Getenv("C06_PROF"); pf != "" {
		f, _ := os.Create(pf)
		pprof.StartCPUProfile(f)
		defer pprof.StopCPUProfile()
	}
	if os.Getenv("C06_PLAN") != "" {
		for _, p := range plans {
			if p.Name == "P4-allbases" {
				continue
			}
			fmt.Printf("%-28s bases=%d makers=%d forks=%dx%d fins=%d scheds=%d modes=%d histories=%d\n", p.Name, len(p.Bases), len(p.Makers), len(p.ForksA), len(p.ForksB), len(p.Fins), len(p.Scheds), len(p.Modes), p.size())
		}
		fmt.Printf("planned histories: %d in %d units\n", planned, len(units))
		return
	}

	// The budget is counted in CPU time of this process (16 workers x the wall budget of the guide), so that
	// the verdict does not depend on how many other checks share the machine; a wall-clock cap ends the run
	// anyway (exit 0/1 as found so far, exhaustive:false).
	budget := 80 * time.Second
	wallCap := 12 * time.Minute
	if args.Tier == "thorough" {
		budget = 9*time.Minute + 30*time.Second
		wallCap = 30 * time.Minute
	}
	if b, err := time.ParseDuration(os.Getenv("C06_BUDGET")); err == nil && b > 0 {
		budget = b // development aid
	}
	cpuBudget := budget * 16
	deadline := run.Start.Add(wallCap)
	if os.Getenv("C06_BUDGET") != "" {
		deadline = run.Start.Add(budget)
		cpuBudget = 1 << 60
	}
	cpuStart := cpuTime()

	// unlisted violations: at most 300 per class (= input-side tag list) are handed to the run, and the
	// enumeration stops after 2000 in total, so that every class met before that gets reported
	const maxPerClass = 300
	maxUnknown := int64(2000)
	if os.Getenv("C06_DUMP") != "" {
		maxUnknown = 1 << 40
	}
	type vclass struct {
		Count   int
		Known   bool // listed in known_findings.json (run.Violation said so)
		Example HistoryJSON
		Message string
	}
	classes := map[string]*vclass{}
	var (
		next      int64 = -1
		stop      int32
		timedOut  int32
		unknown   int64
		mu        sync.Mutex
		total     = newCounters()
		samples   = &mc.Samples{N: 6}
		flaky     []string
		doneUnits int64
		skipped   int64
		wg        sync.WaitGroup
	)
	nw := 16
	for i := 0; i < nw; i++ {
		wg.Add(1)
		go func() {
			defer wg.Done()
			w := newWorker()
			defer w.close()
			for atomic.LoadInt32(&stop) == 0 {
				n := atomic.AddInt64(&next, 1)
				if int(n) >= len(units) {
					break
				}
				if time.Now().After(deadline) || (n%16 == 0 && cpuTime()-cpuStart > cpuBudget) {
					atomic.StoreInt32(&timedOut, 1)
					break
				}
				u := units[n]
				w.memo = map[string]string{}
				p := u.p
				forksA := [][]int{u.a}
				if p.PerBase {
					forksA = p.ForksA
				}
				for _, fa := range forksA {
					for _, b := range p.ForksB {
						for _, fp := range p.Fins {
							for _, sc := range p.Scheds {
								for _, dense := range p.Modes {
									hs := &hist{Real: p.Real, Base: u.base, Maker: u.maker, A: fa, B: b, FinA: fp[0], FinB: fp[1], Events: sc, Dense: dense, Probes: p.Probes, Writes: p.Writes}
									if outOfScope(hs) {
										atomic.AddInt64(&skipped, 1)
										continue
									}
									f := w.run(hs, false, nil)
									if f == nil {
										continue
									}
									// confirm on a fresh gorm.Open: the verdict must not depend on what this worker ran before
									f2 := w.run(hs, true, nil)
									if f2 == nil {
										mu.Lock()
										if len(flaky) < 5 {
											flaky = append(flaky, f.message(hs))
										}
										mu.Unlock()
										// the long-lived root may have been damaged: replace it
										w.dryRoot = nil
										if w.realEnv != nil {
											w.realEnv.Close()
											w.realEnv = nil
										}
										continue
									}
									if os.Getenv("C06_DUMP") != "" {
										fmt.Fprintf(os.Stderr, "DUMP %v | %s | %s | step %d %s | exp %s | obs %s\n", tags(hs), f2.Kind, strings.ReplaceAll(hs.String(), "\n", " ;"), f2.Step, f2.What, f2.Expected, f2.Observed)
									}
									tg := tags(hs)
									key := fmt.Sprint(tg)
									mu.Lock()
									cl := classes[key]
									if cl == nil {
										cl = &vclass{Example: hs.JSON(), Message: f2.message(hs)}
										classes[key] = cl
									}
									cl.Count++
									skip := !cl.Known && cl.Count > maxPerClass
									mu.Unlock()
									// the worker's long-lived handles may be damaged by what just happened
									w.dryRoot = nil
									if w.realEnv != nil {
										w.realEnv.Close()
										w.realEnv = nil
									}
									isUnknown := skip
									if !skip {
										if run.Violation(tg, f2.message(hs), hs.JSON()) {
											isUnknown = true
										} else {
											mu.Lock()
											cl.Known = true
											mu.Unlock()
										}
									}
									if isUnknown && atomic.AddInt64(&unknown, 1) >= maxUnknown {
										atomic.StoreInt32(&stop, 1)
									}
									if atomic.LoadInt32(&stop) != 0 {
										break
									}
								}
							}
						}
						if atomic.LoadInt32(&stop) != 0 {
							break
						}
					}
				}
				atomic.AddInt64(&doneUnits, 1)
				if n%97 == 0 {
					samples.Add((&hist{Real: p.Real, Base: u.base, Maker: u.maker, A: forksA[0], B: p.ForksB[len(p.ForksB)/2], FinA: p.Fins[0][0], FinB: p.Fins[0][1], Events: p.Scheds[0], Dense: p.Modes[0]}).JSON())
				}
			}
			mu.Lock()
			c := w.cnt
			total.histories += c.histories
			total.transitions += c.transitions
			total.probes += c.probes
			total.comparisons += c.comparisons
			total.expectedRuns += c.expectedRuns
			total.nvSameKind += c.nvSameKind
			total.nvBothForks += c.nvBothForks
			total.realHistories += c.realHistories
			mu.Unlock()
		}()
	}
	wg.Wait()

	// one example replay per class of violation (mc.Run writes replay files only for the first five violations)
	var keys []string
	for k := range classes {
		keys = append(keys, k)
	}
	sort.Strings(keys)
	classCounts := map[string]int{}
	for i, k := range keys {
		cl := classes[k]
		classCounts[k] = cl.Count
		if cl.Known {
			continue
		}
		dir := filepath.Join(mc.Root(), "replays")
		os.MkdirAll(dir, 0o755)
		path := filepath.Join(dir, fmt.Sprintf("C06-%s-class-%d.json", args.Tier, i+1))
		b, _ := json.MarshalIndent(map[string]interface{}{"property": "C06", "tags": k, "message": cl.Message, "replay": cl.Example}, "", " ")
		os.WriteFile(path, b, 0o644)
		fmt.Printf("VIOLATION-CLASS property=C06 input-tags=%s failing-histories=%d example-replay=%s\n", k, cl.Count, path)
	}

	exhaustive := atomic.LoadInt32(&timedOut) == 0 && atomic.LoadInt32(&stop) == 0 && int(doneUnits) == len(units) && os.Getenv("C06_ONLY") == ""
	for _, m := range flaky {
		run.HarnessError("a failure seen on a worker's long-lived gorm.Open handle did not reproduce on a fresh gorm.Open (state carried over between histories, or nondeterminism):\n%s", m)
	}
	floor := int64(1000)
	if total.nvSameKind < floor && run.NumViolations() == 0 && exhaustive {
		run.HarnessError("vacuous: only %d histories in which both forks extend a clause kind of the parent", total.nvSameKind)
	}
	if setOutcomes.len() < 50 && run.NumViolations() == 0 {
		run.HarnessError("vacuous: only %d distinct outcomes observed", setOutcomes.len())
	}
	run.Assume("DryRun dialector with '?' placeholders plus SQLite; one model (User belongs-to Company, soft delete); values outside the argument variants of the alphabet are not explored")
	run.Assume("intermediate chain objects (clone == 0) are used linearly; forks happen only at reusable handles (gorm.Open, Session, WithContext, Debug, Begin) — the only exception is the Count-then-Find idiom on one chain, executed on SQLite")
	run.Assume("the isolated replay on a fresh gorm.Open is the reference: a defect that changes a chain even when it is the only one ever built is out of scope (C02/C19 look at that)")
	run.Assume("Count-then-Find on one chain object is only checked for chains without pending Scopes (scopes run and are consumed during the Count, and Count's restore of ORDER BY then discards an ORDER BY added by the scope: observed, reported, outside the property because the chain is not a reusable handle)")
	run.Assume("updates write the new values back into the Model value by design; that value belongs to the caller and is shared by all chains of a handle, so Save (the only finisher of the alphabet that writes a primary key) is given a private Model(&User{}) when the spec carries a Model call")
	run.Assume("Statement.Settings (Set/InstanceSet), Attrs/Assign (C16), Raw/Exec, MapColumns, Clauses(clause.From{..}) and prepared-statement sessions are outside the alphabet")
	pprof.StopCPUProfile()
	run.Finish(map[string]interface{}{
		"states":                            setStates.len(),
		"transitions":                       total.transitions,
		"traces_validated_against_impl":     total.transitions,
		"evaluations":                       total.histories,
		"distinct_nontrivial":               setNontrivial.len(),
		"rule":                              "histories = base chain (<=3 calls) -> handle maker (Session | WithContext | Debug | Begin on SQLite | the gorm.Open handle itself) -> two forks (<=2 calls each) x finisher pair (Find First Take Last Count Pluck Scan FirstOrInit Update Delete Create Save | fork turned into a handle and probed | on SQLite: Find Count First, Count-then-Find on one chain) x schedule {aBuild bBuild aExec bExec | aBuild bBuild bExec aExec | aBuild aExec bBuild bExec} (forks range over ordered pairs, so the mirrored schedules are included) x probe mode {after every transition | only at the end} [+ one execution of the handle itself at a gap]. Blocks: P0 forks from the Open handle; P1 base and both forks from the variants of one clause kind (P1m other handle makers, P1h handle executed in between); PH/PHm/PHR/PH2 every finisher of the alphabet (Find First Take Last Count Pluck Scan FirstOrInit FindInBatches FirstOrCreate CreateInBatches Association.Find/Count Update Delete Create Save; on SQLite the read-only ones + Rows Row Transaction(fn)) executed directly ON a live reusable handle — the base handle at every gap of the schedule, the handle made from fork A once it exists — with the handle's base chain (1-2 calls, thorough 1-3) ranging over every clause kind and, in PH2, over every 2-call chain of the quick alphabet, followed by forks and probes of the same handle (PHR2: on SQLite with 2-kind bases); PI/PIR chain calls with an argument they cannot translate (typed nil pointer, unsupported type, unknown relation, failing scope/expression — the call records an error) built on a fork that is executed, turned into a handle or abandoned, or as the base; a panic inside gorm is an observation compared with the isolated replay; PM/PMm/PMR one handle used with two models (User, Pet) whose fields of the same Go name map to different columns — Select/Omit by Go field name in the base, forks choosing the model by Model(..)/Table(..)/the finisher's destination; PQ/PQm/PQR a call kind present in the base repeated by a fork with another argument (Table, Model, Locking, OnConflict, Limit, Select/Distinct, Omit, Unscoped, Preload, Joins, Returning, Set/InstanceSet — the value of the setting is part of every observation) while the other fork does not touch it, schedules incl. build A, build B, exec A with B abandoned; PA/PAR handles that select/omit associations (has-many with nested has-one, has-one, many2many on an Owner graph) used by two writing chains (Delete/Save/Create/Updates on disjoint rows, explicit keys), DryRun and SQLite (tables reseeded per history, statement logs compared as multisets); PG/PGm/PGR conditions built from clause.Or/clause.And expressions and the handle passed as the sole group condition of a chain starting at the Open handle (Unscoped / model without soft delete), then later chains of the handle; every probe of a live handle starts with a passive read of its Statement (Selects, Omits, Table/TableExpr, Distinct, Unscoped, Model type, Joins, Preloads, clause shapes, the setting); P2 one call each from any kinds; P3 two kinds mixed; P4 (thorough) every 3-call base over the quick alphabet with one-call forks from the kinds in the base; PR the same on SQLite with real queries. distinct_nontrivial = distinct (base, maker, fork, finisher) specs with a non-empty fork whose output was compared with its isolated replay on a fresh gorm.Open; states = distinct handle-tree specs (base+maker; per fork: not built / built / finished / handle + its calls + finisher); transitions = handle made, fork built, fork executed, handle executed — each executed on the implementation and followed by the oracle",
		"samples":                           samples.List(),
		"exhaustive":                        exhaustive,
		"violating_histories_by_input_tags": classCounts,
		"planned_histories":                 planned,
		"skipped_count_then_find_with_pending_scopes": skipped,
		"units_done":          doneUnits,
		"units":               len(units),
		"histories_on_sqlite": total.realHistories,
		"nv_both_forks_extend_a_clause_kind_of_the_parent": total.nvSameKind,
		"nv_both_forks_extend_the_same_clause_kind":        total.nvBothForks,
		"handle_probe_executions":                          total.probes,
		"comparisons_with_isolated_replay":                 total.comparisons,
		"isolated_replays_on_fresh_open":                   total.expectedRuns,
		"distinct_outcomes":                                setOutcomes.len(),
		"chain_calls_in_alphabet":                          len(ops),
		"clause_kinds":                                     len(kinds),
	})
}
