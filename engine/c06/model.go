package main

import (
	"context"
	"errors"
	"fmt"
	"sort"
	"strings"
	"time"

	"gorm.io/gorm"
	"gorm.io/gorm/clause"
)

// ---------------------------------------------------------------------------
// models

type Company struct {
	ID   uint
	Name string
}

type User struct {
	ID        uint
	Name      string
	Age       int
	CompanyID uint
	Company   Company
	DeletedAt gorm.DeletedAt
}

// Pet has the same Go field names as User mapped to other columns.
type Pet struct {
	ID        uint
	Name      string `gorm:"column:pet_name"`
	Age       int    `gorm:"column:pet_age"`
	CompanyID uint
	Company   Company
	DeletedAt gorm.DeletedAt
}

// Owner and its children: has-many Dogs (soft delete) with a nested has-one Toy, has-one Profile,
// many2many Langs — for handles that select/omit associations and for writing finishers.
type Owner struct {
	ID      uint
	Name    string
	Dogs    []Dog
	Profile Profile
	Langs   []Lang `gorm:"many2many:owner_langs"`
}

type Dog struct {
	ID        uint
	OwnerID   uint
	Name      string
	Toy       Toy
	DeletedAt gorm.DeletedAt
}

type Toy struct {
	ID    uint
	DogID uint
	Name  string
}

type Profile struct {
	ID      uint
	OwnerID uint
	Bio     string
}

type Lang struct {
	ID   uint
	Code string
}

const assocSchemaSQL = `
CREATE TABLE owners (id integer primary key autoincrement, name text);
CREATE TABLE dogs (id integer primary key autoincrement, owner_id integer, name text, deleted_at datetime);
CREATE TABLE toys (id integer primary key autoincrement, dog_id integer, name text);
CREATE TABLE profiles (id integer primary key autoincrement, owner_id integer, bio text);
CREATE TABLE langs (id integer primary key autoincrement, code text);
CREATE TABLE owner_langs (owner_id integer, lang_id integer, primary key (owner_id, lang_id));
`

// reseeded before every history that writes
const assocSeedSQL = `
DELETE FROM owners; DELETE FROM dogs; DELETE FROM toys; DELETE FROM profiles; DELETE FROM langs; DELETE FROM owner_langs;
DELETE FROM sqlite_sequence WHERE name IN ('owners','dogs','toys','profiles','langs');
INSERT INTO owners (id,name) VALUES (1,'o1'),(2,'o2'),(3,'o3');
INSERT INTO dogs (id,owner_id,name,deleted_at) VALUES (1,1,'d1',NULL),(2,1,'d2',NULL),(3,2,'d3',NULL),(4,2,'d4',NULL),(5,3,'d5',NULL);
INSERT INTO toys (id,dog_id,name) VALUES (1,1,'t1'),(2,2,'t2'),(3,3,'t3'),(4,4,'t4'),(5,5,'t5');
INSERT INTO profiles (id,owner_id,bio) VALUES (1,1,'b1'),(2,2,'b2'),(3,3,'b3');
INSERT INTO langs (id,code) VALUES (1,'go'),(2,'sql');
INSERT INTO owner_langs (owner_id,lang_id) VALUES (1,1),(1,2),(2,1),(3,2);
`

const schemaSQL = `
CREATE TABLE pets (id integer primary key autoincrement, pet_name text, pet_age integer, company_id integer, deleted_at datetime);
INSERT INTO pets (id,pet_name,pet_age,company_id,deleted_at) VALUES (1,'w',3,1,NULL),(2,'rex',30,2,NULL),(3,'n',5,1,NULL);
CREATE TABLE companies (id integer primary key autoincrement, name text);
CREATE TABLE users (id integer primary key autoincrement, name text, age integer, company_id integer, deleted_at datetime);
INSERT INTO companies (id,name) VALUES (1,'pc'),(2,'jr'),(3,'other');
INSERT INTO users (id,name,age,company_id,deleted_at) VALUES
 (1,'w',30,1,NULL),(2,'n',30,2,NULL),(3,'w',5,3,NULL),(4,'x',40,1,NULL),(5,'w',30,1,'2019-01-01 00:00:00+00:00'),(6,'n',7,2,NULL);
`

// ---------------------------------------------------------------------------
// chain methods (the alphabet)

// actx is what an argument of a chain call may refer to.
type actx struct {
	root   *gorm.DB // the gorm.Open handle of this replay; group arguments are chains built from it
	parent *gorm.DB // the reusable handle the current chain is derived from (root for the base chain)
}

const (
	tQuick = 0 // quick: same-kind (P1), cross-kind (P2), pairs (P3)
	tCross = 1 // quick: cross-kind only; thorough: everywhere
	tThor  = 2 // thorough only
	// tInvalid: an argument the call cannot translate (it records an error); only in the PI blocks
	tInvalid = 3
	// tBlock: only in the blocks that name the call explicitly (PM two models, PQ repeated call kinds)
	tBlock = 4
)

type op struct {
	Label   string
	Kind    string // the statement component the call extends (for the NV counter and the enumeration)
	Tier    int
	RetCols bool // a Returning clause with explicit columns
	UsesH   bool // the argument is the live parent handle itself
	IsOr    bool // an Or(...) call
	IsModel bool
	Apply   func(db *gorm.DB, c *actx) *gorm.DB
}

func scopeWhere(d *gorm.DB) *gorm.DB { return d.Where("age > ?", 18) }
func scopeOrder(d *gorm.DB) *gorm.DB { return d.Order("id").Limit(7) }
func scopeReturn(d *gorm.DB) *gorm.DB {
	return d.Clauses(clause.Returning{Columns: []clause.Column{{Name: "id"}}})
}
func scopeFail(d *gorm.DB) *gorm.DB {
	d.AddError(errScope)
	return d
}

var errScope = errors.New("c06: scope failed")
var errTooManyBatches = errors.New("c06: more batches than the table has rows")

// badExpr is a condition that cannot be rendered.
type badExpr struct{}

func (badExpr) Build(b clause.Builder) {
	b.WriteString("1 = 1")
	b.AddError(errors.New("c06: expression cannot be built"))
}

func exprAge() clause.Expression  { return clause.Expr{SQL: "age > ?", Vars: []interface{}{40}} }
func exprName() clause.Expression { return clause.Expr{SQL: "name = ?", Vars: []interface{}{"w"}} }

func group(c *actx) *gorm.DB       { return c.root.Where("ga = ?", 1).Or("gb = ?", 2) }
func groupOrOnly(c *actx) *gorm.DB { return c.root.Or("gc = ?", 3) }
func retCols(n ...string) clause.Returning {
	// exact capacity, like a composite literal
	cols := make([]clause.Column, len(n))
	for i, x := range n {
		cols[i] = clause.Column{Name: x}
	}
	return clause.Returning{Columns: cols}
}

type ctxKey struct{}

const settingKey = "c06:k"

var ops = []op{
	// WHERE
	{Label: `Where("name = ?","w")`, Kind: "WHERE", Tier: tQuick, Apply: func(db *gorm.DB, c *actx) *gorm.DB { return db.Where("name = ?", "w") }},
	{Label: `Or("age = ?",30)`, Kind: "WHERE", Tier: tQuick, IsOr: true, Apply: func(db *gorm.DB, c *actx) *gorm.DB { return db.Or("age = ?", 30) }},
	{Label: `Not(map{name:n})`, Kind: "WHERE", Tier: tQuick, Apply: func(db *gorm.DB, c *actx) *gorm.DB {
		return db.Not(map[string]interface{}{"name": "n"})
	}},
	{Label: `Where(db.Where("ga = ?",1).Or("gb = ?",2))`, Kind: "WHERE", Tier: tCross, Apply: func(db *gorm.DB, c *actx) *gorm.DB { return db.Where(group(c)) }},
	{Label: `Or(db.Where("ga = ?",1).Or("gb = ?",2))`, Kind: "WHERE", Tier: tCross, IsOr: true, Apply: func(db *gorm.DB, c *actx) *gorm.DB { return db.Or(group(c)) }},
	{Label: `Where(<parent handle>)`, Kind: "WHERE", Tier: tCross, UsesH: true, Apply: func(db *gorm.DB, c *actx) *gorm.DB { return db.Where(c.parent) }},
	{Label: `Where(map{age:30})`, Kind: "WHERE", Tier: tThor, Apply: func(db *gorm.DB, c *actx) *gorm.DB {
		return db.Where(map[string]interface{}{"age": 30})
	}},
	{Label: `Or(map{name:x})`, Kind: "WHERE", Tier: tThor, IsOr: true, Apply: func(db *gorm.DB, c *actx) *gorm.DB {
		return db.Or(map[string]interface{}{"name": "x"})
	}},
	{Label: `Not("age = ?",5)`, Kind: "WHERE", Tier: tThor, Apply: func(db *gorm.DB, c *actx) *gorm.DB { return db.Not("age = ?", 5) }},
	{Label: `Not(db.Where("ga = ?",1).Or("gb = ?",2))`, Kind: "WHERE", Tier: tThor, Apply: func(db *gorm.DB, c *actx) *gorm.DB { return db.Not(group(c)) }},
	{Label: `Where(&User{Name:"w"})`, Kind: "WHERE", Tier: tThor, Apply: func(db *gorm.DB, c *actx) *gorm.DB { return db.Where(&User{Name: "w"}) }},
	{Label: `Where("age = 30 OR age = 40")`, Kind: "WHERE", Tier: tThor, Apply: func(db *gorm.DB, c *actx) *gorm.DB { return db.Where("age = 30 OR age = 40") }},
	{Label: `Where(db.Or("gc = ?",3))`, Kind: "WHERE", Tier: tThor, Apply: func(db *gorm.DB, c *actx) *gorm.DB { return db.Where(groupOrOnly(c)) }},
	{Label: `Or(<parent handle>)`, Kind: "WHERE", Tier: tThor, IsOr: true, UsesH: true, Apply: func(db *gorm.DB, c *actx) *gorm.DB { return db.Or(c.parent) }},

	// SELECT (Statement.Selects / SELECT clause)
	{Label: `Select([]string{"name"})`, Kind: "SELECT", Tier: tQuick, Apply: func(db *gorm.DB, c *actx) *gorm.DB { return db.Select([]string{"name"}) }},
	{Label: `Select("age","name")`, Kind: "SELECT", Tier: tQuick, Apply: func(db *gorm.DB, c *actx) *gorm.DB { return db.Select("age", "name") }},
	{Label: `Select("upper(name) as un")`, Kind: "SELECT", Tier: tThor, Apply: func(db *gorm.DB, c *actx) *gorm.DB { return db.Select("upper(name) as un") }},
	{Label: `Select("COALESCE(age,?) as ca",42)`, Kind: "SELECT", Tier: tThor, Apply: func(db *gorm.DB, c *actx) *gorm.DB { return db.Select("COALESCE(age,?) as ca", 42) }},
	{Label: `Distinct("name")`, Kind: "SELECT", Tier: tThor, Apply: func(db *gorm.DB, c *actx) *gorm.DB { return db.Distinct("name") }},

	// OMIT
	{Label: `Omit("age")`, Kind: "OMIT", Tier: tQuick, Apply: func(db *gorm.DB, c *actx) *gorm.DB { return db.Omit("age") }},
	{Label: `Omit("name","company_id")`, Kind: "OMIT", Tier: tThor, Apply: func(db *gorm.DB, c *actx) *gorm.DB { return db.Omit("name", "company_id") }},

	// ORDER BY
	{Label: `Order("name")`, Kind: "ORDER", Tier: tQuick, Apply: func(db *gorm.DB, c *actx) *gorm.DB { return db.Order("name") }},
	{Label: `Clauses(OrderBy{age desc})`, Kind: "ORDER", Tier: tQuick, Apply: func(db *gorm.DB, c *actx) *gorm.DB {
		return db.Clauses(clause.OrderBy{Columns: []clause.OrderByColumn{{Column: clause.Column{Name: "age"}, Desc: true}}})
	}},
	{Label: `Order(OrderByColumn{id})`, Kind: "ORDER", Tier: tThor, Apply: func(db *gorm.DB, c *actx) *gorm.DB {
		return db.Order(clause.OrderByColumn{Column: clause.Column{Name: "id"}})
	}},
	{Label: `Clauses(OrderBy{company_id reorder})`, Kind: "ORDER", Tier: tThor, Apply: func(db *gorm.DB, c *actx) *gorm.DB {
		return db.Clauses(clause.OrderBy{Columns: []clause.OrderByColumn{{Column: clause.Column{Name: "company_id"}, Reorder: true}}})
	}},

	// LIMIT / OFFSET
	{Label: `Limit(5)`, Kind: "LIMIT", Tier: tQuick, Apply: func(db *gorm.DB, c *actx) *gorm.DB { return db.Limit(5) }},
	{Label: `Offset(3)`, Kind: "LIMIT", Tier: tQuick, Apply: func(db *gorm.DB, c *actx) *gorm.DB { return db.Offset(3) }},
	{Label: `Limit(-1)`, Kind: "LIMIT", Tier: tThor, Apply: func(db *gorm.DB, c *actx) *gorm.DB { return db.Limit(-1) }},
	{Label: `Offset(-1)`, Kind: "LIMIT", Tier: tThor, Apply: func(db *gorm.DB, c *actx) *gorm.DB { return db.Offset(-1) }},

	// GROUP BY / HAVING
	{Label: `Group("name")`, Kind: "GROUP", Tier: tQuick, Apply: func(db *gorm.DB, c *actx) *gorm.DB { return db.Group("name") }},
	{Label: `Having("count(*) > ?",1)`, Kind: "HAVING", Tier: tQuick, Apply: func(db *gorm.DB, c *actx) *gorm.DB { return db.Having("count(*) > ?", 1) }},
	{Label: `Group("age")`, Kind: "GROUP", Tier: tQuick, Apply: func(db *gorm.DB, c *actx) *gorm.DB { return db.Group("age") }},
	{Label: `Having("max(age) < ?",90)`, Kind: "HAVING", Tier: tQuick, Apply: func(db *gorm.DB, c *actx) *gorm.DB { return db.Having("max(age) < ?", 90) }},

	// JOINS
	{Label: `Joins("Company")`, Kind: "JOINS", Tier: tQuick, Apply: func(db *gorm.DB, c *actx) *gorm.DB { return db.Joins("Company") }},
	{Label: `Joins("JOIN companies c2 ON … c2.name = ?","jr")`, Kind: "JOINS", Tier: tQuick, Apply: func(db *gorm.DB, c *actx) *gorm.DB {
		return db.Joins("JOIN companies c2 ON c2.id = users.company_id AND c2.name = ?", "jr")
	}},
	{Label: `InnerJoins("Company")`, Kind: "JOINS", Tier: tThor, Apply: func(db *gorm.DB, c *actx) *gorm.DB { return db.InnerJoins("Company") }},
	{Label: `Joins("Company",db.Or("name = ?","pc").Where("id > ?",0))`, Kind: "JOINS", Tier: tThor, Apply: func(db *gorm.DB, c *actx) *gorm.DB {
		return db.Joins("Company", c.root.Or("name = ?", "pc").Where("id > ?", 0))
	}},

	// flags
	{Label: `Distinct()`, Kind: "DISTINCT", Tier: tQuick, Apply: func(db *gorm.DB, c *actx) *gorm.DB { return db.Distinct() }},
	{Label: `Unscoped()`, Kind: "UNSCOPED", Tier: tQuick, Apply: func(db *gorm.DB, c *actx) *gorm.DB { return db.Unscoped() }},

	// SCOPES
	{Label: `Scopes(Where("age > ?",18))`, Kind: "SCOPES", Tier: tQuick, Apply: func(db *gorm.DB, c *actx) *gorm.DB { return db.Scopes(scopeWhere) }},
	{Label: `Scopes(Order("id").Limit(7))`, Kind: "SCOPES", Tier: tQuick, Apply: func(db *gorm.DB, c *actx) *gorm.DB { return db.Scopes(scopeOrder) }},
	{Label: `Scopes(Clauses(Returning{id}))`, Kind: "SCOPES", Tier: tThor, Apply: func(db *gorm.DB, c *actx) *gorm.DB { return db.Scopes(scopeReturn) }},

	// Clauses(...)
	{Label: `Clauses(Returning{name})`, Kind: "RETURNING", Tier: tQuick, RetCols: true, Apply: func(db *gorm.DB, c *actx) *gorm.DB { return db.Clauses(retCols("name")) }},
	{Label: `Clauses(Returning{age})`, Kind: "RETURNING", Tier: tQuick, RetCols: true, Apply: func(db *gorm.DB, c *actx) *gorm.DB { return db.Clauses(retCols("age")) }},
	{Label: `Clauses(Returning{id,company_id})`, Kind: "RETURNING", Tier: tThor, RetCols: true, Apply: func(db *gorm.DB, c *actx) *gorm.DB { return db.Clauses(retCols("id", "company_id")) }},
	{Label: `Clauses(Returning{})`, Kind: "RETURNING", Tier: tThor, Apply: func(db *gorm.DB, c *actx) *gorm.DB { return db.Clauses(clause.Returning{}) }},
	{Label: `Clauses(Locking{UPDATE})`, Kind: "LOCKING", Tier: tQuick, Apply: func(db *gorm.DB, c *actx) *gorm.DB { return db.Clauses(clause.Locking{Strength: "UPDATE"}) }},
	{Label: `Clauses(Locking{SHARE NOWAIT})`, Kind: "LOCKING", Tier: tThor, Apply: func(db *gorm.DB, c *actx) *gorm.DB {
		return db.Clauses(clause.Locking{Strength: "SHARE", Options: "NOWAIT"})
	}},
	{Label: `Clauses(OnConflict{DoNothing})`, Kind: "ONCONFLICT", Tier: tQuick, Apply: func(db *gorm.DB, c *actx) *gorm.DB { return db.Clauses(clause.OnConflict{DoNothing: true}) }},
	{Label: `Clauses(OnConflict{id -> name})`, Kind: "ONCONFLICT", Tier: tThor, Apply: func(db *gorm.DB, c *actx) *gorm.DB {
		return db.Clauses(clause.OnConflict{Columns: []clause.Column{{Name: "id"}}, DoUpdates: clause.AssignmentColumns([]string{"name"})})
	}},
	{Label: `Clauses(OnConflict{UpdateAll})`, Kind: "ONCONFLICT", Tier: tThor, Apply: func(db *gorm.DB, c *actx) *gorm.DB { return db.Clauses(clause.OnConflict{UpdateAll: true}) }},

	// invalid arguments: building (or executing) the call records an error — on the new chain only
	{Label: `Where((*int)(nil))`, Kind: "WHERE", Tier: tInvalid, Apply: func(db *gorm.DB, c *actx) *gorm.DB { return db.Where((*int)(nil)) }},
	{Label: `Or((*int)(nil))`, Kind: "WHERE", Tier: tInvalid, IsOr: true, Apply: func(db *gorm.DB, c *actx) *gorm.DB { return db.Or((*int)(nil)) }},
	{Label: `Not((*int)(nil))`, Kind: "WHERE", Tier: tInvalid, Apply: func(db *gorm.DB, c *actx) *gorm.DB { return db.Not((*int)(nil)) }},
	{Label: `Where("name = ?",w).Not((*int)(nil)) in one call list`, Kind: "WHERE", Tier: tInvalid, Apply: func(db *gorm.DB, c *actx) *gorm.DB {
		return db.Where("name = ?", "w").Not((*int)(nil))
	}},
	{Label: `Having((*int)(nil))`, Kind: "HAVING", Tier: tInvalid, Apply: func(db *gorm.DB, c *actx) *gorm.DB { return db.Having((*int)(nil)) }},
	{Label: `Select(123)`, Kind: "SELECT", Tier: tInvalid, Apply: func(db *gorm.DB, c *actx) *gorm.DB { return db.Select(123) }},
	{Label: `Select([]string{"name"},1)`, Kind: "SELECT", Tier: tInvalid, Apply: func(db *gorm.DB, c *actx) *gorm.DB { return db.Select([]string{"name"}, 1) }},
	{Label: `Distinct(123)`, Kind: "SELECT", Tier: tInvalid, Apply: func(db *gorm.DB, c *actx) *gorm.DB { return db.Distinct(123) }},
	{Label: `Preload("Nope")`, Kind: "PRELOAD", Tier: tInvalid, Apply: func(db *gorm.DB, c *actx) *gorm.DB { return db.Preload("Nope") }},
	{Label: `Joins("Nope.Deeper")`, Kind: "JOINS", Tier: tInvalid, Apply: func(db *gorm.DB, c *actx) *gorm.DB { return db.Joins("Nope.Deeper") }},
	{Label: `Scopes(AddError)`, Kind: "SCOPES", Tier: tInvalid, Apply: func(db *gorm.DB, c *actx) *gorm.DB { return db.Scopes(scopeFail) }},
	{Label: `Model(123)`, Kind: "MODEL", Tier: tInvalid, IsModel: true, Apply: func(db *gorm.DB, c *actx) *gorm.DB { return db.Model(123) }},
	{Label: `Clauses(<expression whose Build reports an error>)`, Kind: "WHERE", Tier: tInvalid, Apply: func(db *gorm.DB, c *actx) *gorm.DB {
		return db.Clauses(badExpr{})
	}},

	// Go field names (resolved per model when the statement is built), second model, repeated call kinds
	{Label: `Select("Name")`, Kind: "SELECT", Tier: tBlock, Apply: func(db *gorm.DB, c *actx) *gorm.DB { return db.Select("Name") }},
	{Label: `Select("Name","Age")`, Kind: "SELECT", Tier: tBlock, Apply: func(db *gorm.DB, c *actx) *gorm.DB { return db.Select("Name", "Age") }},
	{Label: `Select([]string{"Age"})`, Kind: "SELECT", Tier: tBlock, Apply: func(db *gorm.DB, c *actx) *gorm.DB { return db.Select([]string{"Age"}) }},
	{Label: `Omit("Age")`, Kind: "OMIT", Tier: tBlock, Apply: func(db *gorm.DB, c *actx) *gorm.DB { return db.Omit("Age") }},
	{Label: `Omit("Name","CompanyID")`, Kind: "OMIT", Tier: tBlock, Apply: func(db *gorm.DB, c *actx) *gorm.DB { return db.Omit("Name", "CompanyID") }},
	{Label: `Model(&Pet{})`, Kind: "MODEL", Tier: tBlock, IsModel: true, Apply: func(db *gorm.DB, c *actx) *gorm.DB { return db.Model(&Pet{}) }},
	{Label: `Table("pets")`, Kind: "TABLE", Tier: tBlock, Apply: func(db *gorm.DB, c *actx) *gorm.DB { return db.Table("pets") }},
	{Label: `Table("pets AS p")`, Kind: "TABLE", Tier: tBlock, Apply: func(db *gorm.DB, c *actx) *gorm.DB { return db.Table("pets AS p") }},
	{Label: `Table("(SELECT * FROM users WHERE age > ?) AS u",18)`, Kind: "TABLE", Tier: tBlock, Apply: func(db *gorm.DB, c *actx) *gorm.DB {
		return db.Table("(SELECT * FROM users WHERE age > ?) AS u", 18)
	}},
	{Label: `Table("main.users")`, Kind: "TABLE", Tier: tBlock, Apply: func(db *gorm.DB, c *actx) *gorm.DB { return db.Table("main.users") }},
	{Label: `Limit(2)`, Kind: "LIMIT", Tier: tBlock, Apply: func(db *gorm.DB, c *actx) *gorm.DB { return db.Limit(2) }},
	{Label: `Clauses(Limit{Limit:&4,Offset:1})`, Kind: "LIMIT", Tier: tBlock, Apply: func(db *gorm.DB, c *actx) *gorm.DB {
		n := 4
		return db.Clauses(clause.Limit{Limit: &n, Offset: 1})
	}},
	{Label: `Set("c06:k","v1")`, Kind: "SETTINGS", Tier: tBlock, Apply: func(db *gorm.DB, c *actx) *gorm.DB { return db.Set(settingKey, "v1") }},
	{Label: `Set("c06:k","v2")`, Kind: "SETTINGS", Tier: tBlock, Apply: func(db *gorm.DB, c *actx) *gorm.DB { return db.Set(settingKey, "v2") }},
	{Label: `InstanceSet("c06:k","i1")`, Kind: "SETTINGS", Tier: tBlock, Apply: func(db *gorm.DB, c *actx) *gorm.DB { return db.InstanceSet(settingKey, "i1") }},

	// associations selected / omitted by the handle (they steer what writing finishers touch)
	{Label: `Select("Dogs")`, Kind: "SELECT", Tier: tBlock, Apply: func(db *gorm.DB, c *actx) *gorm.DB { return db.Select("Dogs") }},
	{Label: `Select("Dogs","Dogs.Toy")`, Kind: "SELECT", Tier: tBlock, Apply: func(db *gorm.DB, c *actx) *gorm.DB { return db.Select("Dogs", "Dogs.Toy") }},
	{Label: `Select("Name","Dogs","Dogs.Toy","Profile")`, Kind: "SELECT", Tier: tBlock, Apply: func(db *gorm.DB, c *actx) *gorm.DB {
		return db.Select("Name", "Dogs", "Dogs.Toy", "Profile")
	}},
	{Label: `Select(clause.Associations)`, Kind: "SELECT", Tier: tBlock, Apply: func(db *gorm.DB, c *actx) *gorm.DB { return db.Select(clause.Associations) }},
	{Label: `Select(clause.Associations,"Dogs.Toy")`, Kind: "SELECT", Tier: tBlock, Apply: func(db *gorm.DB, c *actx) *gorm.DB {
		return db.Select(clause.Associations, "Dogs.Toy")
	}},
	{Label: `Select("Profile","Langs")`, Kind: "SELECT", Tier: tBlock, Apply: func(db *gorm.DB, c *actx) *gorm.DB { return db.Select("Profile", "Langs") }},
	{Label: `Omit("Dogs.Toy")`, Kind: "OMIT", Tier: tBlock, Apply: func(db *gorm.DB, c *actx) *gorm.DB { return db.Omit("Dogs.Toy") }},
	{Label: `Omit("Langs","Profile")`, Kind: "OMIT", Tier: tBlock, Apply: func(db *gorm.DB, c *actx) *gorm.DB { return db.Omit("Langs", "Profile") }},
	{Label: `Omit(clause.Associations)`, Kind: "OMIT", Tier: tBlock, Apply: func(db *gorm.DB, c *actx) *gorm.DB { return db.Omit(clause.Associations) }},
	{Label: `Where("name <> ?","zz")`, Kind: "WHERE", Tier: tBlock, Apply: func(db *gorm.DB, c *actx) *gorm.DB { return db.Where("name <> ?", "zz") }},

	// conditions given as clause.Or / clause.And expressions, and the handle as the SOLE group condition of a
	// chain that starts at the Open handle
	{Label: `Where(clause.Or(age > 40),clause.Expr(name = w))`, Kind: "WHERE", Tier: tBlock, Apply: func(db *gorm.DB, c *actx) *gorm.DB {
		return db.Where(clause.Or(exprAge()), exprName())
	}},
	{Label: `Where(clause.And(clause.Or(age > 40),name = w))`, Kind: "WHERE", Tier: tBlock, Apply: func(db *gorm.DB, c *actx) *gorm.DB {
		return db.Where(clause.And(clause.Or(exprAge()), exprName()))
	}},
	{Label: `Or(clause.Or(age > 40,name = w))`, Kind: "WHERE", Tier: tBlock, IsOr: true, Apply: func(db *gorm.DB, c *actx) *gorm.DB {
		return db.Or(clause.Or(exprAge(), exprName()))
	}},
	{Label: `Where(clause.Or(age > 40),clause.Or(name = w),clause.Expr(id > 0))`, Kind: "WHERE", Tier: tBlock, Apply: func(db *gorm.DB, c *actx) *gorm.DB {
		return db.Where(clause.Or(exprAge()), clause.Or(exprName()), clause.Expr{SQL: "id > ?", Vars: []interface{}{0}})
	}},
	{Label: `<Open handle>.Unscoped().Where(<parent handle>)`, Kind: "WHERE", Tier: tBlock, UsesH: true, Apply: func(db *gorm.DB, c *actx) *gorm.DB {
		return c.root.Unscoped().Where(c.parent)
	}},
	{Label: `<Open handle>.Model(&Company{}).Where(<parent handle>)`, Kind: "WHERE", Tier: tBlock, UsesH: true, IsModel: true, Apply: func(db *gorm.DB, c *actx) *gorm.DB {
		return c.root.Model(&Company{}).Where(c.parent)
	}},
	{Label: `<Open handle>.Where(<parent handle>)`, Kind: "WHERE", Tier: tBlock, UsesH: true, Apply: func(db *gorm.DB, c *actx) *gorm.DB {
		return c.root.Where(c.parent)
	}},
	{Label: `<Open handle>.Unscoped().Not(<parent handle>)`, Kind: "WHERE", Tier: tBlock, UsesH: true, Apply: func(db *gorm.DB, c *actx) *gorm.DB {
		return c.root.Unscoped().Not(c.parent)
	}},

	// a reusable handle made in the middle of a chain
	{Label: `Session(&Session{})`, Kind: "SESSION", Tier: tCross, Apply: func(db *gorm.DB, c *actx) *gorm.DB { return db.Session(&gorm.Session{}) }},
	{Label: `WithContext(ctx)`, Kind: "SESSION", Tier: tThor, Apply: func(db *gorm.DB, c *actx) *gorm.DB {
		return db.WithContext(context.WithValue(context.Background(), ctxKey{}, "mid"))
	}},

	// TABLE / MODEL / PRELOAD
	{Label: `Table("users")`, Kind: "TABLE", Tier: tQuick, Apply: func(db *gorm.DB, c *actx) *gorm.DB { return db.Table("users") }},
	{Label: `Table("users AS u")`, Kind: "TABLE", Tier: tThor, Apply: func(db *gorm.DB, c *actx) *gorm.DB { return db.Table("users AS u") }},
	{Label: `Model(&User{})`, Kind: "MODEL", Tier: tQuick, IsModel: true, Apply: func(db *gorm.DB, c *actx) *gorm.DB { return db.Model(&User{}) }},
	{Label: `Model(&User{ID:4})`, Kind: "MODEL", Tier: tThor, IsModel: true, Apply: func(db *gorm.DB, c *actx) *gorm.DB { return db.Model(&User{ID: 4}) }},
	{Label: `Preload("Company")`, Kind: "PRELOAD", Tier: tQuick, Apply: func(db *gorm.DB, c *actx) *gorm.DB { return db.Preload("Company") }},
	{Label: `Preload("Company","name = ?","pc")`, Kind: "PRELOAD", Tier: tCross, Apply: func(db *gorm.DB, c *actx) *gorm.DB { return db.Preload("Company", "name = ?", "pc") }},
}

var opByLabel = map[string]int{}

func init() {
	for i, o := range ops {
		if _, dup := opByLabel[o.Label]; dup {
			panic("duplicate op label " + o.Label)
		}
		opByLabel[o.Label] = i
	}
}

// kinds in a fixed order
var kinds = []string{"WHERE", "SELECT", "OMIT", "ORDER", "LIMIT", "GROUP", "HAVING", "JOINS", "DISTINCT", "UNSCOPED", "SCOPES", "RETURNING", "LOCKING", "ONCONFLICT", "TABLE", "MODEL", "PRELOAD", "SESSION", "SETTINGS"}

func opsOf(kind string, maxTier int) []int {
	var out []int
	for i, o := range ops {
		if o.Kind == kind && o.Tier <= maxTier {
			out = append(out, i)
		}
	}
	return out
}

// ---------------------------------------------------------------------------
// handle makers: turn a chain (or the root) into a reusable handle

type maker struct {
	Label    string
	RealOnly bool
	Apply    func(db *gorm.DB) *gorm.DB
}

var makers = []maker{
	{Label: "Session(&Session{})", Apply: func(db *gorm.DB) *gorm.DB { return db.Session(&gorm.Session{}) }},
	{Label: "WithContext(ctx)", Apply: func(db *gorm.DB) *gorm.DB {
		return db.WithContext(context.WithValue(context.Background(), ctxKey{}, "c06"))
	}},
	{Label: "Debug()", Apply: func(db *gorm.DB) *gorm.DB { return db.Debug() }},
	{Label: "Begin()", RealOnly: true, Apply: func(db *gorm.DB) *gorm.DB { return db.Begin() }},
	// only with an empty base chain: the forks start at the gorm.Open handle itself
	{Label: "(the gorm.Open handle itself)", Apply: func(db *gorm.DB) *gorm.DB { return db }},
}

const (
	mkSession = 0
	mkContext = 1
	mkDebug   = 2
	mkBegin   = 3
	mkOpen    = 4
)

var makerByLabel = map[string]int{}

// ---------------------------------------------------------------------------
// finishers

type finisher struct {
	Label string
	Dry   bool
	Real  bool
	// Run executes the finisher on db (a chain object: in place; a reusable
	// handle: on a clone). hasModel: the spec contains a Model(...) call.
	// A finisher may consist of two calls (Count then Find on the same chain).
	Run func(db *gorm.DB, hasModel bool, obs func(tx *gorm.DB)) *gorm.DB
}

// ownerGraph: an owner with one dog (and its toy), a profile and one language, all with explicit keys.
func ownerGraph(owner, dog, toy, profile, lang uint, name string) *Owner {
	return &Owner{ID: owner, Name: name,
		Dogs:    []Dog{{ID: dog, OwnerID: owner, Name: name + "-dog", Toy: Toy{ID: toy, DogID: dog, Name: name + "-toy"}}},
		Profile: Profile{ID: profile, OwnerID: owner, Bio: name + "-bio"},
		Langs:   []Lang{{ID: lang, Code: name + "-lang"}}}
}

// stateOf renders the exported builder state of a handle's statement without executing anything.
func stateOf(db *gorm.DB) string {
	st := db.Statement
	var sb strings.Builder
	sb.WriteString("selects=[")
	sb.WriteString(strings.Join(st.Selects, ","))
	sb.WriteString("] omits=[")
	sb.WriteString(strings.Join(st.Omits, ","))
	sb.WriteString("] table=")
	sb.WriteString(st.Table)
	if st.TableExpr != nil {
		sb.WriteString(" tableExpr=")
		sb.WriteString(st.TableExpr.SQL)
		sb.WriteString(fmtVars(st.TableExpr.Vars))
	}
	if st.Distinct {
		sb.WriteString(" distinct")
	}
	if st.Unscoped {
		sb.WriteString(" unscoped")
	}
	if st.Model != nil {
		fmt.Fprintf(&sb, " model=%T", st.Model)
	}
	fmt.Fprintf(&sb, " joins=%d", len(st.Joins))
	if len(st.Preloads) > 0 {
		keys := make([]string, 0, len(st.Preloads))
		for k := range st.Preloads {
			keys = append(keys, k)
		}
		sort.Strings(keys)
		for _, k := range keys {
			sb.WriteString(" preload:" + k + fmtVars(st.Preloads[k]))
		}
	}
	if len(st.Clauses) > 0 {
		keys := make([]string, 0, len(st.Clauses))
		for k := range st.Clauses {
			keys = append(keys, k)
		}
		sort.Strings(keys)
		for _, k := range keys {
			switch e := st.Clauses[k].Expression.(type) {
			case clause.Limit:
				if e.Limit != nil {
					fmt.Fprintf(&sb, " LIMIT(%d,%d)", *e.Limit, e.Offset)
				} else {
					fmt.Fprintf(&sb, " LIMIT(nil,%d)", e.Offset)
				}
			case clause.Where:
				fmt.Fprintf(&sb, " WHERE(%d:", len(e.Exprs))
				for _, x := range e.Exprs {
					fmt.Fprintf(&sb, "%T,", x)
				}
				sb.WriteString(")")
			case clause.Returning:
				fmt.Fprintf(&sb, " RETURNING(%d)", len(e.Columns))
			case clause.OrderBy:
				fmt.Fprintf(&sb, " ORDER(%d)", len(e.Columns))
			default:
				fmt.Fprintf(&sb, " %s:%T", k, e)
			}
		}
	}
	sb.WriteString(settingsObsStmt(db))
	if db.Error != nil {
		sb.WriteString(" err=" + db.Error.Error())
	}
	return sb.String()
}

func settingsObsStmt(db *gorm.DB) string {
	out := ""
	if v, ok := db.Statement.Settings.Load(settingKey); ok {
		out += fmt.Sprintf(" set=%v", v)
	}
	return out
}

func withModel(db *gorm.DB, hasModel bool) *gorm.DB {
	if hasModel {
		return db
	}
	return db.Model(&User{})
}

const (
	fFind = iota
	fFirst
	fCount
	fUpdate
	fDelete
	fCreate
	fTake
	fLast
	fPluck
	fScan
	fFirstOrInit
	fSave
	fRows // SQLite only (DryRun does not support Rows)
	fRow  // SQLite only
	fFindInBatches
	fFirstOrCreate   // DryRun only (it writes)
	fCreateInBatches // DryRun only (it writes)
	fTransaction     // SQLite only: Transaction(func(tx) { tx.Find })
	fAssocFind
	fAssocCount
	fState // passive: the exported builder state of the handle's Statement is read, nothing is executed
	// writing finishers on the Owner graph; the two forks of a history use disjoint rows and explicit keys
	fDelOwner1
	fDelOwner2
	fSaveOwner1
	fSaveOwner2
	fCreateOwnerA
	fCreateOwnerB
	fUpdatesOwner1
	fUpdatesOwner2
	fFindOwners
	fFindPets // the same handle used with another model
	fCountPets
	fCreatePet // DryRun only
	fHandle    // the chain is not finished but turned into a reusable handle with Session(&Session{})
	fCountFind // real only: Count and then Find on the same chain object (pagination idiom)
	fModelFind // internal: the Find half of fCountFind replayed alone
)

type scanRow struct {
	Name string
	Age  int
}

var finishers = []finisher{
	fFind: {Label: "Find(&[]User{})", Dry: true, Real: true, Run: func(db *gorm.DB, hm bool, obs func(*gorm.DB)) *gorm.DB {
		tx := db.Find(&[]User{})
		obs(tx)
		return tx
	}},
	fFirst: {Label: "First(&User{})", Dry: true, Real: true, Run: func(db *gorm.DB, hm bool, obs func(*gorm.DB)) *gorm.DB {
		tx := db.First(&User{})
		obs(tx)
		return tx
	}},
	fCount: {Label: "Count(&n)", Dry: true, Real: true, Run: func(db *gorm.DB, hm bool, obs func(*gorm.DB)) *gorm.DB {
		var n int64
		tx := withModel(db, hm).Count(&n)
		obs(tx)
		return tx
	}},
	fUpdate: {Label: `Update("name","upd")`, Dry: true, Run: func(db *gorm.DB, hm bool, obs func(*gorm.DB)) *gorm.DB {
		tx := withModel(db, hm).Update("name", "upd")
		obs(tx)
		return tx
	}},
	fDelete: {Label: "Delete(&User{})", Dry: true, Run: func(db *gorm.DB, hm bool, obs func(*gorm.DB)) *gorm.DB {
		tx := db.Delete(&User{})
		obs(tx)
		return tx
	}},
	fCreate: {Label: `Create(&User{Name:"c",Age:1})`, Dry: true, Run: func(db *gorm.DB, hm bool, obs func(*gorm.DB)) *gorm.DB {
		tx := db.Create(&User{Name: "c", Age: 1})
		obs(tx)
		return tx
	}},
	fTake: {Label: "Take(&User{})", Dry: true, Real: true, Run: func(db *gorm.DB, hm bool, obs func(*gorm.DB)) *gorm.DB {
		tx := db.Take(&User{})
		obs(tx)
		return tx
	}},
	fLast: {Label: "Last(&User{})", Dry: true, Real: true, Run: func(db *gorm.DB, hm bool, obs func(*gorm.DB)) *gorm.DB {
		tx := db.Last(&User{})
		obs(tx)
		return tx
	}},
	fPluck: {Label: `Pluck("name",&[]string{})`, Dry: true, Real: true, Run: func(db *gorm.DB, hm bool, obs func(*gorm.DB)) *gorm.DB {
		var names []string
		tx := withModel(db, hm).Pluck("name", &names)
		obs(tx)
		return tx
	}},
	fScan: {Label: "Scan(&[]struct{Name,Age})", Dry: true, Real: true, Run: func(db *gorm.DB, hm bool, obs func(*gorm.DB)) *gorm.DB {
		var rows []scanRow
		tx := withModel(db, hm).Scan(&rows)
		obs(tx)
		return tx
	}},
	fFirstOrInit: {Label: "FirstOrInit(&User{})", Dry: true, Real: true, Run: func(db *gorm.DB, hm bool, obs func(*gorm.DB)) *gorm.DB {
		tx := db.FirstOrInit(&User{})
		obs(tx)
		return tx
	}},
	fSave: {Label: `Save(&User{ID:2,Name:"s"})`, Dry: true, Run: func(db *gorm.DB, hm bool, obs func(*gorm.DB)) *gorm.DB {
		if hm {
			// Save with a primary key writes the saved values back into the Model value (documented
			// behaviour of updates); the Model value of the spec is an object of the caller shared by
			// every chain of the handle, so the write-back is given a private one
			db = db.Model(&User{})
		}
		tx := db.Save(&User{ID: 2, Name: "s"})
		obs(tx)
		return tx
	}},
	fRows: {Label: "Rows()", Real: true, Run: func(db *gorm.DB, hm bool, obs func(*gorm.DB)) *gorm.DB {
		c := withModel(db, hm)
		rows, err := c.Rows()
		if rows != nil {
			rows.Close()
		}
		// Rows does not hand out its *DB: report the error through a detached one
		tx := &gorm.DB{Config: db.Config, Error: err, Statement: &gorm.Statement{}}
		obs(tx)
		return nil
	}},
	fRow: {Label: "Row()", Real: true, Run: func(db *gorm.DB, hm bool, obs func(*gorm.DB)) *gorm.DB {
		row := withModel(db, hm).Row()
		var err error
		if row != nil {
			var x interface{}
			err = row.Scan(&x) // releases the connection; the column-count error is part of the observation
		}
		obs(&gorm.DB{Config: db.Config, Error: err, Statement: &gorm.Statement{}})
		return nil
	}},
	fFindInBatches: {Label: "FindInBatches(&[]User{},2,fn)", Dry: true, Real: true, Run: func(db *gorm.DB, hm bool, obs func(*gorm.DB)) *gorm.DB {
		var us []User
		tx := db.FindInBatches(&us, 2, func(btx *gorm.DB, batch int) error {
			if batch >= 6 {
				// e.g. an Or(...) condition defeats the primary-key cursor and the loop would never end
				return errTooManyBatches
			}
			return nil
		})
		obs(tx)
		return tx
	}},
	fFirstOrCreate: {Label: `FirstOrCreate(&User{},User{Name:"foc"})`, Dry: true, Run: func(db *gorm.DB, hm bool, obs func(*gorm.DB)) *gorm.DB {
		tx := db.FirstOrCreate(&User{}, User{Name: "foc"})
		obs(tx)
		return tx
	}},
	fCreateInBatches: {Label: "CreateInBatches(&[]User{a,b,c},2)", Dry: true, Run: func(db *gorm.DB, hm bool, obs func(*gorm.DB)) *gorm.DB {
		tx := db.CreateInBatches(&[]User{{Name: "a"}, {Name: "b"}, {Name: "c"}}, 2)
		obs(tx)
		return tx
	}},
	fTransaction: {Label: "Transaction(func(tx){tx.Find(&[]User{})})", Real: true, Run: func(db *gorm.DB, hm bool, obs func(*gorm.DB)) *gorm.DB {
		err := db.Transaction(func(tx *gorm.DB) error { return tx.Find(&[]User{}).Error })
		obs(&gorm.DB{Config: db.Config, Error: err, Statement: &gorm.Statement{}})
		return nil
	}},
	fAssocFind: {Label: `Association("Company").Find(&[]Company{})`, Dry: true, Real: true, Run: func(db *gorm.DB, hm bool, obs func(*gorm.DB)) *gorm.DB {
		if !hm {
			db = db.Model(&User{ID: 1, CompanyID: 1})
		}
		var cs []Company
		err := db.Association("Company").Find(&cs)
		obs(&gorm.DB{Config: db.Config, Error: err, Statement: &gorm.Statement{}})
		return nil
	}},
	fAssocCount: {Label: `Association("Company").Count()`, Dry: true, Real: true, Run: func(db *gorm.DB, hm bool, obs func(*gorm.DB)) *gorm.DB {
		if !hm {
			db = db.Model(&User{ID: 1, CompanyID: 1})
		}
		a := db.Association("Company")
		n := a.Count()
		obs(&gorm.DB{Config: db.Config, Error: a.Error, RowsAffected: n, Statement: &gorm.Statement{}})
		return nil
	}},
	fState: {Label: "<read Statement.Selects/Omits/Table/... of the handle>", Dry: true, Real: true},
	fDelOwner1: {Label: "Delete(&Owner{ID:1})", Dry: true, Real: true, Run: func(db *gorm.DB, hm bool, obs func(*gorm.DB)) *gorm.DB {
		tx := db.Delete(&Owner{ID: 1})
		obs(tx)
		return tx
	}},
	fDelOwner2: {Label: "Delete(&Owner{ID:2})", Dry: true, Real: true, Run: func(db *gorm.DB, hm bool, obs func(*gorm.DB)) *gorm.DB {
		tx := db.Delete(&Owner{ID: 2})
		obs(tx)
		return tx
	}},
	fSaveOwner1: {Label: "Save(&Owner{ID:1 with dog 1, toy 1, profile 1, lang 2})", Dry: true, Real: true, Run: func(db *gorm.DB, hm bool, obs func(*gorm.DB)) *gorm.DB {
		tx := db.Save(ownerGraph(1, 1, 1, 1, 2, "s1"))
		obs(tx)
		return tx
	}},
	fSaveOwner2: {Label: "Save(&Owner{ID:2 with dog 3, toy 3, profile 2, lang 1})", Dry: true, Real: true, Run: func(db *gorm.DB, hm bool, obs func(*gorm.DB)) *gorm.DB {
		tx := db.Save(ownerGraph(2, 3, 3, 2, 1, "s2"))
		obs(tx)
		return tx
	}},
	fCreateOwnerA: {Label: "Create(&Owner{ID:101 with dog 101, toy 101, profile 101, lang 101})", Dry: true, Real: true, Run: func(db *gorm.DB, hm bool, obs func(*gorm.DB)) *gorm.DB {
		tx := db.Create(ownerGraph(101, 101, 101, 101, 101, "ca"))
		obs(tx)
		return tx
	}},
	fCreateOwnerB: {Label: "Create(&Owner{ID:201 with dog 201, toy 201, profile 201, lang 201})", Dry: true, Real: true, Run: func(db *gorm.DB, hm bool, obs func(*gorm.DB)) *gorm.DB {
		tx := db.Create(ownerGraph(201, 201, 201, 201, 201, "cb"))
		obs(tx)
		return tx
	}},
	fUpdatesOwner1: {Label: "Model(&Owner{ID:1}).Updates(Owner{Name,Dogs,Profile})", Dry: true, Real: true, Run: func(db *gorm.DB, hm bool, obs func(*gorm.DB)) *gorm.DB {
		g := ownerGraph(1, 2, 2, 1, 1, "u1")
		g.ID = 0
		tx := db.Model(&Owner{ID: 1}).Updates(*g)
		obs(tx)
		return tx
	}},
	fUpdatesOwner2: {Label: "Model(&Owner{ID:2}).Updates(Owner{Name,Dogs,Profile})", Dry: true, Real: true, Run: func(db *gorm.DB, hm bool, obs func(*gorm.DB)) *gorm.DB {
		g := ownerGraph(2, 4, 4, 2, 2, "u2")
		g.ID = 0
		tx := db.Model(&Owner{ID: 2}).Updates(*g)
		obs(tx)
		return tx
	}},
	fFindOwners: {Label: "Find(&[]Owner{})", Dry: true, Real: true, Run: func(db *gorm.DB, hm bool, obs func(*gorm.DB)) *gorm.DB {
		tx := db.Find(&[]Owner{})
		obs(tx)
		return tx
	}},
	fFindPets: {Label: "Find(&[]Pet{})", Dry: true, Real: true, Run: func(db *gorm.DB, hm bool, obs func(*gorm.DB)) *gorm.DB {
		tx := db.Find(&[]Pet{})
		obs(tx)
		return tx
	}},
	fCountPets: {Label: "Model(&Pet{}).Count(&n)", Dry: true, Real: true, Run: func(db *gorm.DB, hm bool, obs func(*gorm.DB)) *gorm.DB {
		var n int64
		tx := db.Model(&Pet{}).Count(&n)
		obs(tx)
		return tx
	}},
	fCreatePet: {Label: `Create(&Pet{Name:"p",Age:2})`, Dry: true, Run: func(db *gorm.DB, hm bool, obs func(*gorm.DB)) *gorm.DB {
		tx := db.Create(&Pet{Name: "p", Age: 2})
		obs(tx)
		return tx
	}},
	fHandle: {Label: "Session(&Session{}) [becomes a handle]", Dry: true, Real: true},
	fCountFind: {Label: "Count(&n) then Find(&[]User{}) on the same chain", Real: true, Run: func(db *gorm.DB, hm bool, obs func(*gorm.DB)) *gorm.DB {
		var n int64
		c := withModel(db, hm)
		tx := c.Count(&n)
		obs(tx)
		if tx.Error != nil {
			return tx // errors are sticky on a chain object by design
		}
		tx = c.Find(&[]User{})
		obs(tx)
		return tx
	}},
}

func init() {
	finishers = append(finishers, finisher{Label: "Model(&User{}) if none, then Find(&[]User{})", Real: true, Run: func(db *gorm.DB, hm bool, obs func(*gorm.DB)) *gorm.DB {
		tx := withModel(db, hm).Find(&[]User{})
		obs(tx)
		return tx
	}})
	if len(finishers) != fModelFind+1 {
		panic("finisher table out of order")
	}
}

var finByLabel = map[string]int{}

func init() {
	for i, m := range makers {
		makerByLabel[m.Label] = i
	}
	for i, f := range finishers {
		finByLabel[f.Label] = i
	}
}

// every finisher of the alphabet, for direct execution on a live reusable handle
var dryHandleFins = []int{fFind, fFirst, fCount, fUpdate, fDelete, fCreate, fTake, fLast, fPluck, fScan, fFirstOrInit, fSave, fFindInBatches, fFirstOrCreate, fCreateInBatches, fAssocFind, fAssocCount, fFindPets}
var realHandleFins = []int{fFind, fFirst, fCount, fTake, fLast, fPluck, fScan, fFirstOrInit, fRows, fRow, fFindInBatches, fTransaction, fAssocFind, fAssocCount, fFindPets}

// probe finishers executed directly on reusable handles
var dryProbes = []int{fState, fFind, fUpdate, fCreate}
var realProbes = []int{fState, fFind}

// ---------------------------------------------------------------------------
// observation formatting

func fmtVar(v interface{}) string {
	switch t := v.(type) {
	case time.Time:
		return "time(" + t.UTC().Format(time.RFC3339Nano) + ")"
	case *time.Time:
		if t == nil {
			return "(*time)nil"
		}
		return "*time(" + t.UTC().Format(time.RFC3339Nano) + ")"
	case gorm.DeletedAt:
		return fmt.Sprintf("DeletedAt(%v,%v)", t.Valid, t.Time.UTC().Format(time.RFC3339Nano))
	case string:
		return fmt.Sprintf("%q", t)
	default:
		return fmt.Sprintf("%T(%v)", v, v)
	}
}

func fmtVars(vs []interface{}) string {
	var sb strings.Builder
	sb.WriteByte('[')
	for i, v := range vs {
		if i > 0 {
			sb.WriteString(", ")
		}
		sb.WriteString(fmtVar(v))
	}
	sb.WriteByte(']')
	return sb.String()
}

func errStr(err error) string {
	if err == nil {
		return ""
	}
	return " err=" + err.Error()
}
