package main

import (
	"fmt"
	"hash/fnv"
	"io"
	"regexp"
	"sort"
	"strconv"
	"strings"
	"sync"
	"time"

	"gorm.io/gorm"

	"verif/h"
)

// ---------------------------------------------------------------------------
// histories

// event kinds of a schedule
const (
	evBuildA = 'a'
	evBuildB = 'b'
	evExecA  = 'A'
	evExecB  = 'B'
	evExecH  = 'H' // execute a finisher directly on the base handle
	evExecHA = 'x' // execute a finisher directly on the handle made from fork A (FinA == fHandle, after exec A)
	evExecHB = 'y' // the same for fork B
)

type event struct {
	Kind byte
	Fin  int // for evExecH
}

// hist is one history: base chain -> maker -> handle H; two forks derived from
// H, built and executed in the order given by Events.
type hist struct {
	Real   bool
	Base   []int
	Maker  int
	A, B   []int
	FinA   int
	FinB   int
	Events []event
	Dense  bool // probe every live handle after every transition (else only at the end)
	// Probes: what is executed on / read from live handles by the oracle (nil: the default of the mode)
	Probes []int
	// Writes: the finishers change rows; SQLite tables of the Owner graph are reseeded before the history
	// and statement logs are compared as multisets (gorm walks the selected relations in map order)
	Writes bool
}

// HistoryJSON is the replay format (labels, not indexes, so that it survives
// reordering of the alphabet).
type HistoryJSON struct {
	Real     bool     `json:"real_sqlite"`
	Base     []string `json:"base_chain"`
	Maker    string   `json:"handle_maker"`
	A        []string `json:"fork_a"`
	FinA     string   `json:"fork_a_finisher"`
	B        []string `json:"fork_b"`
	FinB     string   `json:"fork_b_finisher"`
	Events   []string `json:"schedule"`
	Dense    bool     `json:"probe_after_every_transition"`
	Probes   []string `json:"handle_probes,omitempty"`
	Writes   bool     `json:"writing_finishers,omitempty"`
	Readable string   `json:"readable,omitempty"`
}

func labels(idx []int) []string {
	out := make([]string, len(idx))
	for i, x := range idx {
		out[i] = ops[x].Label
	}
	return out
}

func (e event) String() string {
	switch e.Kind {
	case evBuildA:
		return "build A"
	case evBuildB:
		return "build B"
	case evExecA:
		return "exec A"
	case evExecB:
		return "exec B"
	case evExecHA:
		return "exec handle of A: " + finishers[e.Fin].Label
	case evExecHB:
		return "exec handle of B: " + finishers[e.Fin].Label
	}
	return "exec H: " + finishers[e.Fin].Label
}

func (hs *hist) JSON() HistoryJSON {
	j := HistoryJSON{Real: hs.Real, Base: labels(hs.Base), Maker: makers[hs.Maker].Label, A: labels(hs.A), B: labels(hs.B),
		FinA: finishers[hs.FinA].Label, FinB: finishers[hs.FinB].Label, Dense: hs.Dense}
	for _, e := range hs.Events {
		j.Events = append(j.Events, e.String())
	}
	for _, p := range hs.Probes {
		j.Probes = append(j.Probes, finishers[p].Label)
	}
	j.Writes = hs.Writes
	j.Readable = hs.String()
	return j
}

func fromJSON(j HistoryJSON) (*hist, error) {
	hs := &hist{Real: j.Real, Dense: j.Dense, Writes: j.Writes}
	for _, l := range j.Probes {
		f, ok := finByLabel[l]
		if !ok {
			return nil, fmt.Errorf("unknown probe %q", l)
		}
		hs.Probes = append(hs.Probes, f)
	}
	conv := func(ls []string) ([]int, error) {
		var out []int
		for _, l := range ls {
			i, ok := opByLabel[l]
			if !ok {
				return nil, fmt.Errorf("unknown chain call %q", l)
			}
			out = append(out, i)
		}
		return out, nil
	}
	var err error
	if hs.Base, err = conv(j.Base); err != nil {
		return nil, err
	}
	if hs.A, err = conv(j.A); err != nil {
		return nil, err
	}
	if hs.B, err = conv(j.B); err != nil {
		return nil, err
	}
	var ok bool
	if hs.Maker, ok = makerByLabel[j.Maker]; !ok {
		return nil, fmt.Errorf("unknown maker %q", j.Maker)
	}
	if hs.FinA, ok = finByLabel[j.FinA]; !ok {
		return nil, fmt.Errorf("unknown finisher %q", j.FinA)
	}
	if hs.FinB, ok = finByLabel[j.FinB]; !ok {
		return nil, fmt.Errorf("unknown finisher %q", j.FinB)
	}
	for _, e := range j.Events {
		switch {
		case e == "build A":
			hs.Events = append(hs.Events, event{Kind: evBuildA})
		case e == "build B":
			hs.Events = append(hs.Events, event{Kind: evBuildB})
		case e == "exec A":
			hs.Events = append(hs.Events, event{Kind: evExecA})
		case e == "exec B":
			hs.Events = append(hs.Events, event{Kind: evExecB})
		case strings.HasPrefix(e, "exec handle of A: "), strings.HasPrefix(e, "exec handle of B: "):
			k := byte(evExecHA)
			pre := "exec handle of A: "
			if strings.HasPrefix(e, "exec handle of B: ") {
				k, pre = evExecHB, "exec handle of B: "
			}
			f, ok := finByLabel[strings.TrimPrefix(e, pre)]
			if !ok {
				return nil, fmt.Errorf("unknown finisher in %q", e)
			}
			hs.Events = append(hs.Events, event{Kind: k, Fin: f})
		case strings.HasPrefix(e, "exec H: "):
			f, ok := finByLabel[strings.TrimPrefix(e, "exec H: ")]
			if !ok {
				return nil, fmt.Errorf("unknown finisher in %q", e)
			}
			hs.Events = append(hs.Events, event{Kind: evExecH, Fin: f})
		default:
			return nil, fmt.Errorf("unknown event %q", e)
		}
	}
	return hs, nil
}

func chainText(recv string, idx []int) string {
	s := recv
	for _, x := range idx {
		s += "." + ops[x].Label
	}
	return s
}

func (hs *hist) String() string {
	var sb strings.Builder
	env := "DryRun dialector"
	if hs.Real {
		env = "SQLite"
	}
	fmt.Fprintf(&sb, "[%s] H := %s.%s\n", env, chainText("db", hs.Base), makers[hs.Maker].Label)
	for _, e := range hs.Events {
		switch e.Kind {
		case evBuildA:
			fmt.Fprintf(&sb, "  a := %s\n", chainText("H", hs.A))
		case evBuildB:
			fmt.Fprintf(&sb, "  b := %s\n", chainText("H", hs.B))
		case evExecA:
			fmt.Fprintf(&sb, "  a.%s\n", finishers[hs.FinA].Label)
		case evExecB:
			fmt.Fprintf(&sb, "  b.%s\n", finishers[hs.FinB].Label)
		case evExecH:
			fmt.Fprintf(&sb, "  H.%s\n", finishers[e.Fin].Label)
		case evExecHA:
			fmt.Fprintf(&sb, "  a.%s   (a is a handle now)\n", finishers[e.Fin].Label)
		case evExecHB:
			fmt.Fprintf(&sb, "  b.%s   (b is a handle now)\n", finishers[e.Fin].Label)
		}
	}
	if hs.Dense {
		sb.WriteString("  (after every line: every live handle is probed with Find/Update/Create)\n")
	}
	return sb.String()
}

// ---------------------------------------------------------------------------
// environments

var fixedNow = func() time.Time { return h.Epoch }

func newDryRoot() *gorm.DB {
	return h.OpenDry(false, &gorm.Config{NowFunc: fixedNow, AllowGlobalUpdate: true})
}

func newRealEnv() *h.Env {
	e := h.Open(&gorm.Config{NowFunc: fixedNow, AllowGlobalUpdate: true})
	for _, s := range strings.Split(schemaSQL+";"+assocSchemaSQL, ";") {
		if strings.TrimSpace(s) != "" {
			e.MustExec(s)
		}
	}
	reseedAssoc(e)
	return e
}

// reseedAssoc puts the tables of the Owner graph back into their initial state.
func reseedAssoc(e *h.Env) {
	for _, s := range strings.Split(assocSeedSQL, ";") {
		if strings.TrimSpace(s) != "" {
			e.MustExec(s)
		}
	}
}

// obsCollector turns finisher executions into observation strings.
type obsCollector struct {
	env    *h.Env // nil in DryRun mode
	out    []string
	sorted bool // compare the statement log as a multiset
}

func dryObs(tx *gorm.DB) string {
	return tx.Statement.SQL.String() + " | " + fmtVars(tx.Statement.Vars) + settingsObs(tx) + errStr(tx.Error)
}

// settingsObs: what Set/InstanceSet left for this statement (nothing else renders Statement.Settings).
func settingsObs(tx *gorm.DB) string {
	if tx == nil || tx.Statement == nil {
		return ""
	}
	out := ""
	if v, ok := tx.Get(settingKey); ok {
		out += fmt.Sprintf(" set=%v", v)
	}
	if v, ok := tx.InstanceGet(settingKey); ok {
		out += fmt.Sprintf(" iset=%v", v)
	}
	return out
}

func (o *obsCollector) begin() {
	o.out = o.out[:0]
	if o.env != nil {
		o.env.Rec.Reset()
	}
}

func (o *obsCollector) observe(tx *gorm.DB) {
	if o.env == nil {
		o.out = append(o.out, dryObs(tx))
		return
	}
	var lines []string
	for _, ev := range o.env.Rec.Events() {
		if !ev.IsStatement() {
			continue
		}
		var sb strings.Builder
		sb.WriteString(ev.Kind)
		sb.WriteByte(' ')
		sb.WriteString(savepointName.ReplaceAllString(ev.SQL, "sp<n>")) // save-point names are random per call
		sb.WriteString(" [")
		for i, a := range ev.Args {
			if i > 0 {
				sb.WriteString(", ")
			}
			sb.WriteString(fmtVar(a.Value))
		}
		sb.WriteString("]")
		if ev.Err != nil {
			sb.WriteString(" ERR=" + ev.Err.Error())
		}
		sb.WriteString("; ")
		lines = append(lines, sb.String())
	}
	if o.sorted {
		sort.Strings(lines)
	}
	var sb strings.Builder
	for _, l := range lines {
		sb.WriteString(l)
	}
	sb.WriteString(settingsObs(tx))
	if tx.Error != nil {
		// RowsAffected of a failed call is whatever the chain object carried before
		sb.WriteString(errStr(tx.Error))
	} else if !o.sorted {
		// (in a writing history the row counts of later reads legitimately depend on the earlier writes)
		fmt.Fprintf(&sb, "rows=%d", tx.RowsAffected)
	}
	o.env.Rec.Reset()
	o.out = append(o.out, sb.String())
}

// runFin executes a finisher; a panic inside gorm is part of the observation (it is compared with the
// isolated replay like any other outcome: a call list that panics on its own is not an interference).
func runFin(f int, db *gorm.DB, hm bool, oc *obsCollector) (tx *gorm.DB) {
	defer func() {
		if r := recover(); r != nil {
			oc.out = append(oc.out, fmt.Sprintf("PANIC: %v", r))
			tx = nil
		}
	}()
	if f == fState {
		oc.out = append(oc.out, stateOf(db))
		return nil
	}
	return finishers[f].Run(db, hm, oc.observe)
}

var savepointName = regexp.MustCompile(`\bsp\d+\b`)

func (o *obsCollector) result() string { return strings.Join(o.out, "  ;;  ") }

// ---------------------------------------------------------------------------
// expected values: the same spec replayed alone on a fresh gorm.Open

type spec struct {
	Real       bool
	Base       []int
	Maker      int // -1: no handle is made (the chain starts at the Open handle)
	Fork       []int
	ForkHandle bool // the fork is turned into a handle before the finisher
	Fin        int
	Writes     bool // statement log compared as a multiset
}

func (s spec) key() string {
	var sb strings.Builder
	if s.Real {
		sb.WriteByte('R')
	} else {
		sb.WriteByte('D')
	}
	if s.Writes {
		sb.WriteByte('w')
	}
	for _, x := range s.Base {
		sb.WriteString(strconv.Itoa(x))
		sb.WriteByte('.')
	}
	sb.WriteByte('/')
	sb.WriteString(strconv.Itoa(s.Maker))
	sb.WriteByte('/')
	for _, x := range s.Fork {
		sb.WriteString(strconv.Itoa(x))
		sb.WriteByte('.')
	}
	if s.ForkHandle {
		sb.WriteByte('h')
	}
	sb.WriteByte('/')
	sb.WriteString(strconv.Itoa(s.Fin))
	return sb.String()
}

func (s spec) String() string {
	r := chainText("db", s.Base)
	if s.Maker >= 0 {
		r += "." + makers[s.Maker].Label
	}
	r = chainText(r, s.Fork)
	if s.ForkHandle {
		r += ".Session(&Session{})"
	}
	return r + "." + finishers[s.Fin].Label
}

func hasModel(lists ...[]int) bool {
	for _, l := range lists {
		for _, x := range l {
			if ops[x].IsModel {
				return true
			}
		}
	}
	return false
}

// replayAlone executes the spec on a fresh gorm.Open (and a fresh database in
// SQLite mode) and returns what it produced.
func replayAlone(s spec) (res string) {
	defer func() {
		if r := recover(); r != nil {
			res = fmt.Sprintf("PANIC: %v", r)
		}
	}()
	var root *gorm.DB
	oc := &obsCollector{sorted: s.Writes}
	if s.Real {
		env := newRealEnv()
		defer env.Close()
		root = env.DB
		oc.env = env
	} else {
		root = newDryRoot()
	}
	c := &actx{root: root, parent: root}
	db := root
	for _, x := range s.Base {
		db = ops[x].Apply(db, c)
	}
	var H *gorm.DB
	if s.Maker >= 0 {
		H = makers[s.Maker].Apply(db)
		db = H
		c.parent = H
	}
	for _, x := range s.Fork {
		db = ops[x].Apply(db, c)
	}
	if s.ForkHandle {
		db = db.Session(&gorm.Session{})
	}
	oc.begin()
	runFin(s.Fin, db, hasModel(s.Base, s.Fork), oc)
	res = oc.result()
	if s.Real && s.Maker == mkBegin && H != nil {
		oc.env.Quiet(func() { H.Rollback() })
	}
	return res
}

// ---------------------------------------------------------------------------
// executing one history with the oracle

type failure struct {
	Kind     string // short kind (histogrammed)
	Step     int    // index of the event after which it was seen (-1: right after the handle was made)
	What     string
	Spec     string
	Expected string
	Observed string
}

type forkState struct {
	ops    []int
	fin    int
	db     *gorm.DB // the chain object
	status int      // 0 not built, 1 built, 2 finished, 3 turned into a handle
	tx     *gorm.DB // result of the finisher (DryRun: re-read after every transition)
	name   string
}

type counters struct {
	histories     int64
	transitions   int64
	probes        int64 // finisher executions made by the oracle on live handles
	comparisons   int64
	expectedRuns  int64
	nvSameKind    int64 // histories in which both forks extend a clause kind the base already carries
	nvBothForks   int64 // histories in which both forks extend the same clause kind (base or not)
	realHistories int64
}

// u64set is a sharded concurrent set of 64-bit hashes (distinct counters shared
// by all workers); open addressing keeps it at ~16 bytes per entry.
type u64set struct {
	shards [64]struct {
		mu  sync.Mutex
		tab []uint64 // 0 = empty
		n   int
	}
}

func (s *u64set) add(k uint64) {
	if k == 0 {
		k = 1
	}
	sh := &s.shards[k&63]
	sh.mu.Lock()
	if sh.n*2 >= len(sh.tab) {
		old := sh.tab
		size := 1024
		if len(old) > 0 {
			size = len(old) * 2
		}
		sh.tab = make([]uint64, size)
		for _, v := range old {
			if v != 0 {
				i := (v >> 6) & uint64(size-1)
				for sh.tab[i] != 0 {
					i = (i + 1) & uint64(size-1)
				}
				sh.tab[i] = v
			}
		}
	}
	mask := uint64(len(sh.tab) - 1)
	i := (k >> 6) & mask
	for sh.tab[i] != 0 && sh.tab[i] != k {
		i = (i + 1) & mask
	}
	if sh.tab[i] == 0 {
		sh.tab[i] = k
		sh.n++
	}
	sh.mu.Unlock()
}

func (s *u64set) len() int {
	n := 0
	for i := range s.shards {
		s.shards[i].mu.Lock()
		n += s.shards[i].n
		s.shards[i].mu.Unlock()
	}
	return n
}

var (
	setStates     u64set
	setOutcomes   u64set
	setNontrivial u64set
)

func newCounters() *counters { return &counters{} }

func hash64(s string) uint64 {
	f := fnv.New64a()
	io.WriteString(f, s)
	return f.Sum64()
}

type worker struct {
	dryRoot *gorm.DB
	realEnv *h.Env
	memo    map[string]string
	cnt     *counters
}

func newWorker() *worker {
	return &worker{memo: map[string]string{}, cnt: newCounters()}
}

func (w *worker) expected(s spec) string {
	k := s.key()
	if v, ok := w.memo[k]; ok {
		return v
	}
	var v string
	if s.Fin == fCountFind {
		// "as if it were the only one": the Count alone, and the Find alone, each on its own fresh gorm.Open
		c, f := s, s
		c.Fin, f.Fin = fCount, fModelFind
		v = replayAlone(c)
		w.cnt.expectedRuns++
		if !strings.Contains(v, " err=") {
			// (errors are sticky on a chain object by design: after a failed Count the Find is not run)
			v += "  ;;  " + replayAlone(f)
			w.cnt.expectedRuns++
		}
	} else {
		v = replayAlone(s)
		w.cnt.expectedRuns++
	}
	w.memo[k] = v
	return v
}

func (w *worker) close() {
	if w.realEnv != nil {
		w.realEnv.Close()
	}
}

// sameKind computes the NV predicates from the input only.
func sameKind(hs *hist) (withBase, forksOnly bool) {
	kb, ka, kc := map[string]bool{}, map[string]bool{}, map[string]bool{}
	for _, x := range hs.Base {
		kb[ops[x].Kind] = true
	}
	for _, x := range hs.A {
		ka[ops[x].Kind] = true
	}
	for _, x := range hs.B {
		kc[ops[x].Kind] = true
	}
	for k := range ka {
		if kc[k] {
			forksOnly = true
			if kb[k] {
				withBase = true
			}
		}
	}
	return
}

// run executes the history. fresh=true: on a fresh gorm.Open (used to confirm
// a failure and for --replay); otherwise on the worker's long-lived root
// handle, which is itself a reusable handle under test. trace may be nil.
func (w *worker) run(hs *hist, fresh bool, trace io.Writer) (fail *failure) {
	step := -1
	defer func() {
		if r := recover(); r != nil {
			fail = &failure{Kind: "panic inside gorm", Step: step, What: fmt.Sprintf("panic: %v", r)}
		}
	}()
	var root *gorm.DB
	oc := &obsCollector{}
	if hs.Real {
		var env *h.Env
		if fresh {
			env = newRealEnv()
			defer env.Close()
		} else {
			if w.realEnv == nil {
				w.realEnv = newRealEnv()
			}
			env = w.realEnv
		}
		root = env.DB
		oc.env = env
	} else {
		if fresh {
			root = newDryRoot()
		} else {
			if w.dryRoot == nil {
				w.dryRoot = newDryRoot()
			}
			root = w.dryRoot
		}
	}
	probes := dryProbes
	if hs.Real {
		probes = realProbes
	}
	if hs.Probes != nil {
		probes = hs.Probes
	}
	rootProbes := []int{fState, fFind}
	oc.sorted = hs.Writes
	if hs.Writes && hs.Real && !fresh {
		reseedAssoc(oc.env)
	}
	cnt := w.cnt
	if !fresh {
		cnt.histories++
		if hs.Real {
			cnt.realHistories++
		}
		wb, fo := sameKind(hs)
		if wb {
			cnt.nvSameKind++
		}
		if fo {
			cnt.nvBothForks++
		}
	}

	c := &actx{root: root, parent: root}
	db := root
	for _, x := range hs.Base {
		db = ops[x].Apply(db, c)
	}
	H := makers[hs.Maker].Apply(db)
	if hs.Real && hs.Maker == mkBegin {
		defer func() { oc.env.Quiet(func() { H.Rollback() }) }()
	}
	c.parent = H
	fa := &forkState{ops: hs.A, fin: hs.FinA, name: "A"}
	fb := &forkState{ops: hs.B, fin: hs.FinB, name: "B"}
	forks := []*forkState{fa, fb}
	baseKey := spec{Real: hs.Real, Writes: hs.Writes, Base: hs.Base, Maker: hs.Maker}.key()

	noteState := func() {
		if fresh {
			return
		}
		cnt.transitions++
		var sb strings.Builder
		sb.WriteString(baseKey)
		for _, f := range forks {
			sb.WriteByte('|')
			sb.WriteByte(byte('0' + f.status))
			if f.status > 0 {
				for _, x := range f.ops {
					sb.WriteString(strconv.Itoa(x))
					sb.WriteByte('.')
				}
			}
			if f.status >= 2 {
				sb.WriteString(strconv.Itoa(f.fin))
			}
		}
		setStates.add(hash64(sb.String()))
	}

	compare := func(kind, what string, s spec, observed string) *failure {
		exp := w.expected(s)
		if !fresh {
			cnt.comparisons++
			setOutcomes.add(hash64(observed))
		}
		if trace != nil {
			mark := "ok  "
			if exp != observed {
				mark = "DIFF"
			}
			fmt.Fprintf(trace, "    %s %s: %s\n         observed: %s\n", mark, what, s.String(), observed)
			if exp != observed {
				fmt.Fprintf(trace, "         isolated: %s\n", exp)
			}
		}
		if exp != observed {
			return &failure{Kind: kind, Step: step, What: what, Spec: s.String(), Expected: exp, Observed: observed}
		}
		return nil
	}

	probeHandle := func(kind, what string, hdl *gorm.DB, s spec, fins []int) *failure {
		for _, pf := range fins {
			s.Fin = pf
			oc.begin()
			runFin(pf, hdl, hasModel(s.Base, s.Fork), oc)
			if !fresh {
				cnt.probes++
			}
			if f := compare(kind, what+" probed with "+finishers[pf].Label, s, oc.result()); f != nil {
				return f
			}
		}
		return nil
	}

	checkAll := func() *failure {
		// the Open handle itself
		if f := probeHandle("the gorm.Open handle changed", "Open handle", root, spec{Real: hs.Real, Writes: hs.Writes, Maker: -1}, rootProbes); f != nil {
			return f
		}
		if f := probeHandle("reusable handle changed", "handle H", H, spec{Real: hs.Real, Writes: hs.Writes, Base: hs.Base, Maker: hs.Maker}, probes); f != nil {
			return f
		}
		for _, fk := range forks {
			switch fk.status {
			case 3:
				if f := probeHandle("reusable handle changed", "handle made from fork "+fk.name, fk.db, spec{Real: hs.Real, Writes: hs.Writes, Base: hs.Base, Maker: hs.Maker, Fork: fk.ops, ForkHandle: true}, probes); f != nil {
					return f
				}
			case 2:
				if !hs.Real && fk.tx != nil {
					s := spec{Real: hs.Real, Writes: hs.Writes, Base: hs.Base, Maker: hs.Maker, Fork: fk.ops, Fin: fk.fin}
					if f := compare("finished chain's statement changed afterwards", "finished fork "+fk.name+" re-read", s, dryObs(fk.tx)); f != nil {
						return f
					}
				}
			}
		}
		return nil
	}

	noteState()
	if trace != nil {
		fmt.Fprintf(trace, "  H := %s.%s\n", chainText("db", hs.Base), makers[hs.Maker].Label)
	}
	if hs.Dense {
		if f := checkAll(); f != nil {
			return f
		}
	}
	for i, e := range hs.Events {
		step = i
		if trace != nil {
			fmt.Fprintf(trace, "  step %d: %s\n", i, e.String())
		}
		switch e.Kind {
		case evBuildA, evBuildB:
			fk := fa
			if e.Kind == evBuildB {
				fk = fb
			}
			ch := H
			for _, x := range fk.ops {
				ch = ops[x].Apply(ch, c)
			}
			fk.db = ch
			fk.status = 1
		case evExecA, evExecB:
			fk := fa
			if e.Kind == evExecB {
				fk = fb
			}
			if fk.status != 1 {
				return &failure{Kind: "harness: bad schedule", Step: i, What: "exec before build"}
			}
			if fk.fin == fHandle {
				fk.db = fk.db.Session(&gorm.Session{})
				fk.status = 3
				break
			}
			oc.begin()
			fk.tx = runFin(fk.fin, fk.db, hasModel(hs.Base, fk.ops), oc)
			fk.status = 2
			s := spec{Real: hs.Real, Writes: hs.Writes, Base: hs.Base, Maker: hs.Maker, Fork: fk.ops, Fin: fk.fin}
			if !fresh {
				if len(fk.ops) > 0 {
					setNontrivial.add(hash64(s.key()))
				}
			}
			if f := compare("chain derived from a shared handle differs from its isolated replay", "fork "+fk.name+" executed", s, oc.result()); f != nil {
				return f
			}
		case evExecHA, evExecHB:
			fk := fa
			if e.Kind == evExecHB {
				fk = fb
			}
			if fk.status != 3 {
				return &failure{Kind: "harness: bad schedule", Step: i, What: "exec on a fork that is not a handle"}
			}
			s := spec{Real: hs.Real, Writes: hs.Writes, Base: hs.Base, Maker: hs.Maker, Fork: fk.ops, ForkHandle: true, Fin: e.Fin}
			oc.begin()
			runFin(e.Fin, fk.db, hasModel(hs.Base, fk.ops), oc)
			if f := compare("reusable handle changed", "handle made from fork "+fk.name+" executed", s, oc.result()); f != nil {
				return f
			}
		case evExecH:
			s := spec{Real: hs.Real, Writes: hs.Writes, Base: hs.Base, Maker: hs.Maker, Fin: e.Fin}
			oc.begin()
			runFin(e.Fin, H, hasModel(hs.Base), oc)
			if f := compare("reusable handle changed", "handle H executed", s, oc.result()); f != nil {
				return f
			}
		}
		noteState()
		if hs.Dense {
			if f := checkAll(); f != nil {
				return f
			}
		}
	}
	step = len(hs.Events)
	if !hs.Dense {
		if f := checkAll(); f != nil {
			return f
		}
	}
	return nil
}

func (f *failure) message(hs *hist) string {
	return fmt.Sprintf("%s\n%safter step %d: %s\n  spec replayed alone: %s\n  isolated: %s\n  observed: %s", f.Kind, hs.String(), f.Step, f.What, f.Spec, f.Expected, f.Observed)
}

// outOfScope: the Count-then-Find idiom reuses a chain object after a finisher,
// which gorm only supports through Count's mutate-and-restore; with pending
// Scopes the scopes run (and are consumed) during the Count, so the Find is by
// construction a different chain. Such histories are not executed.
func outOfScope(hs *hist) bool {
	has := func(l []int) bool {
		for _, x := range l {
			if ops[x].Kind == "SCOPES" {
				return true
			}
		}
		return false
	}
	if hs.FinA == fCountFind && (has(hs.Base) || has(hs.A)) {
		return true
	}
	if hs.FinB == fCountFind && (has(hs.Base) || has(hs.B)) {
		return true
	}
	return false
}

// tags are computed from the input only.
func tags(hs *hist) []string {
	var t []string
	retBase, retA, retB := 0, 0, 0
	usesH := false
	baseScopes, baseWhere, baseOr := 0, 0, 0
	for _, x := range hs.Base {
		o := ops[x]
		if o.RetCols {
			retBase++
		}
		if o.Kind == "SCOPES" {
			baseScopes++
		}
		if o.Kind == "WHERE" && !o.UsesH { // Where(<the Open handle>) adds nothing
			baseWhere++
			if o.IsOr {
				baseOr++
			}
		}
	}
	for _, x := range hs.A {
		if ops[x].RetCols {
			retA++
		}
		if ops[x].UsesH {
			usesH = true
		}
	}
	for _, x := range hs.B {
		if ops[x].RetCols {
			retB++
		}
		if ops[x].UsesH {
			usesH = true
		}
	}
	if retBase >= 2 && retA >= 1 && retB >= 1 {
		t = append(t, "returning-merged-in-base-and-both-forks-add-returning")
	}
	// Where.Build moves the first non-OR expression to the front inside the array shared with the handle
	firstWhereIsOr, laterNonOr, baseUnscoped := false, false, false
	seenWhere := false
	for _, x := range hs.Base {
		o := ops[x]
		if o.Kind == "UNSCOPED" {
			baseUnscoped = true
		}
		if o.Kind != "WHERE" || o.UsesH {
			continue
		}
		if !seenWhere {
			seenWhere = true
			firstWhereIsOr = o.IsOr
		} else if !o.IsOr {
			laterNonOr = true
		}
	}
	forkUnscoped := false
	for _, l := range [][]int{hs.A, hs.B} {
		for _, x := range l {
			if ops[x].Kind == "UNSCOPED" {
				forkUnscoped = true
			}
		}
	}
	if firstWhereIsOr && laterNonOr && !baseUnscoped && forkUnscoped {
		t = append(t, "handle-where-starts-with-or-and-a-fork-is-unscoped")
	}
	if usesH && baseScopes > 0 {
		t = append(t, "live-handle-with-scopes-passed-as-group-condition")
	}
	if usesH && baseWhere == 1 && baseOr == 1 {
		t = append(t, "live-handle-with-single-or-passed-as-group-condition")
	}
	return t
}
