package main

import "testing"

func TestU64Set(t *testing.T) {
	var s u64set
	ref := map[uint64]bool{}
	x := uint64(88172645463325252)
	for i := 0; i < 200000; i++ {
		x ^= x << 13
		x ^= x >> 7
		x ^= x << 17
		k := x % 50000
		s.add(k)
		if k == 0 {
			k = 1
		}
		ref[k] = true
	}
	if s.len() != len(ref) {
		t.Fatalf("len %d want %d", s.len(), len(ref))
	}
}
