package opcat

import (
	"fmt"

	"gorm.io/gorm"
	"gorm.io/gorm/clause"
)

// Op is one operation of the catalogue. Run performs exactly one gorm
// operation (one finisher / one association-mode call) starting from the handle
// it is given and returns the operation's error. Every Run builds fresh input
// values, so an Op can be executed any number of times.
type Op struct {
	Name string
	// Kind: create | batch | save | update | delete (the C05 write set) or
	// read | assoc (C18 only).
	Kind string
	Text string // readable program
	Run  func(db *gorm.DB) error
	// Delta: expected row-count change per table of the fault-free run on the
	// seed state with HookCtl.Audit on (tables not listed: 0). Hand-written.
	Delta map[string]int
	// DeltaNoReturning replaces Delta on the dialector without RETURNING, where
	// a slice model stays empty and the After* hooks (which write audit rows)
	// therefore do not run per affected row.
	DeltaNoReturning map[string]int
	// Unordered: gorm issues the nested statements of this operation in Go map
	// iteration order (selectColumns in DeleteBeforeAssociations), so driver
	// calls are identified by content, not by position.
	Unordered bool
	// Tags are input-side tags of the operation.
	Tags []string
	// Fails: the operation itself must fail without any injected fault — a real
	// constraint violation (CHECK / UNIQUE) raised by a later row of a multi-row
	// INSERT, which SQLite reports only while the statement is stepped (with
	// RETURNING: while the result set is iterated). Expected: an error and the
	// unchanged database.
	Fails bool
}

// IsWrite tells whether the operation belongs to the C05 write set.
func (o Op) IsWrite() bool {
	switch o.Kind {
	case "create", "batch", "save", "update", "delete":
		return true
	}
	return false
}

func up(v uint) *uint { return &v }

func d(kv ...interface{}) map[string]int {
	m := map[string]int{}
	for i := 0; i+1 < len(kv); i += 2 {
		m[kv[i].(string)] = kv[i+1].(int)
	}
	return m
}

func fullUser(name string) *User {
	return &User{Name: name, Age: 20,
		Company:   Company{Name: name + "-co", Offices: []Office{{City: "oslo"}}},
		Account:   Account{Number: name + "-acc"},
		Pets:      []*Pet{{Name: name + "-p1", Toys: []Toy{{Name: name + "-pt"}}}, {Name: name + "-p2"}},
		Toys:      []Toy{{Name: name + "-toy"}},
		Languages: []Language{{Code: "en", Name: "English"}, {Code: "it", Name: "Italian"}},
	}
}

// alice as an application would hold her after loading, with changed values
// and changed / new association values.
func changedAlice() *User {
	return &User{ID: 1, Name: "alice2", Age: 31, CompanyID: up(1),
		Company:   Company{ID: 1, Name: "acme-renamed"},
		Account:   Account{ID: 1, UserID: up(1), Number: "A-1-changed"},
		Pets:      []*Pet{{ID: 1, UserID: up(1), Name: "rex-renamed"}, {Name: "newpet"}},
		Languages: []Language{{Code: "en", Name: "English-renamed"}, {Code: "es", Name: "Spanish"}},
	}
}

// Input-side tags of the Save-fallback finding: Save of a record whose non-zero
// key does not exist, carrying association values / with hooks that write
// through their handle (both are written and committed by the UPDATE pipeline
// before the fallback upsert starts its own implicit transaction).
const (
	TagSaveAbsent      = "save-nonzero-absent-key-with-associations"
	TagSaveAbsentHooks = "save-nonzero-absent-key-with-writing-hooks"
)

// Writes is the C05 catalogue.
func Writes() []Op {
	var out []Op
	for _, o := range All() {
		if o.IsWrite() {
			out = append(out, o)
		}
	}
	return out
}

// ByName finds an operation.
func ByName(name string) (Op, bool) {
	for _, o := range All() {
		if o.Name == name {
			return o, true
		}
	}
	return Op{}, false
}

// All returns the whole catalogue (writes first).
func All() []Op {
	ops := []Op{
		// ---------------------------------------------------------------- Create
		{Name: "create-plain", Kind: "create", Text: `Create(&User{Name:"u"})`,
			Run:   func(db *gorm.DB) error { return db.Create(&User{Name: "u", Age: 1}).Error },
			Delta: d("users", 1, "audits", 1)},
		{Name: "create-belongs-to-new", Kind: "create", Text: `Create(&User{Company: Company{Name:"newco"}})`,
			Run: func(db *gorm.DB) error {
				return db.Create(&User{Name: "u", Company: Company{Name: "newco"}}).Error
			},
			Delta: d("users", 1, "companies", 1, "audits", 1)},
		{Name: "create-belongs-to-existing", Kind: "create", Text: `Create(&User{Company: Company{ID:1, Name:"acme2"}})`,
			Run: func(db *gorm.DB) error {
				return db.Create(&User{Name: "u", Company: Company{ID: 1, Name: "acme2"}}).Error
			},
			Delta: d("users", 1, "audits", 1)},
		{Name: "create-belongs-to-nested-offices", Kind: "create", Text: `Create(&User{Company: Company{Name, Offices: 2}})`,
			Run: func(db *gorm.DB) error {
				return db.Create(&User{Name: "u", Company: Company{Name: "newco", Offices: []Office{{City: "a"}, {City: "b"}}}}).Error
			},
			Delta: d("users", 1, "companies", 1, "offices", 2, "audits", 1)},
		{Name: "create-has-one", Kind: "create", Text: `Create(&User{Account: Account{Number:"n"}})`,
			Run: func(db *gorm.DB) error {
				return db.Create(&User{Name: "u", Account: Account{Number: "n"}}).Error
			},
			Delta: d("users", 1, "accounts", 1, "audits", 1)},
		{Name: "create-has-many", Kind: "create", Text: `Create(&User{Pets: 2})`,
			Run: func(db *gorm.DB) error {
				return db.Create(&User{Name: "u", Pets: []*Pet{{Name: "p1"}, {Name: "p2"}}}).Error
			},
			Delta: d("users", 1, "pets", 2, "audits", 3)},
		{Name: "create-has-many-nested-poly", Kind: "create", Text: `Create(&User{Pets: 2 each with Toys})`,
			Run: func(db *gorm.DB) error {
				return db.Create(&User{Name: "u", Pets: []*Pet{{Name: "p1", Toys: []Toy{{Name: "a"}, {Name: "b"}}}, {Name: "p2", Toys: []Toy{{Name: "c"}}}}}).Error
			},
			Delta: d("users", 1, "pets", 2, "toys", 3, "audits", 3)},
		{Name: "create-m2m-new", Kind: "create", Text: `Create(&User{Languages: 2 new})`,
			Run: func(db *gorm.DB) error {
				return db.Create(&User{Name: "u", Languages: []Language{{Code: "it", Name: "Italian"}, {Code: "es", Name: "Spanish"}}}).Error
			},
			Delta: d("users", 1, "languages", 2, "user_languages", 2, "audits", 1)},
		{Name: "create-m2m-mixed", Kind: "create", Text: `Create(&User{Languages: existing en + new it})`,
			Run: func(db *gorm.DB) error {
				return db.Create(&User{Name: "u", Languages: []Language{{Code: "en", Name: "English"}, {Code: "it", Name: "Italian"}}}).Error
			},
			Delta: d("users", 1, "languages", 1, "user_languages", 2, "audits", 1)},
		{Name: "create-polymorphic", Kind: "create", Text: `Create(&User{Toys: 2})`,
			Run: func(db *gorm.DB) error {
				return db.Create(&User{Name: "u", Toys: []Toy{{Name: "a"}, {Name: "b"}}}).Error
			},
			Delta: d("users", 1, "toys", 2, "audits", 1)},
		{Name: "create-full-graph", Kind: "create", Text: `Create(&User{Company+Offices, Account, Pets+Toys, Toys, Languages})`,
			Run:   func(db *gorm.DB) error { return db.Create(fullUser("zed")).Error },
			Delta: d("users", 1, "companies", 1, "offices", 1, "accounts", 1, "pets", 2, "toys", 2, "languages", 1, "user_languages", 2, "audits", 3)},
		{Name: "create-slice-plain", Kind: "create", Text: `Create(&[]User{3})`,
			Run: func(db *gorm.DB) error {
				return db.Create(&[]User{{Name: "a"}, {Name: "b"}, {Name: "c"}}).Error
			},
			Delta: d("users", 3, "audits", 3)},
		{Name: "create-slice-graph", Kind: "create", Text: `Create(&[]User{2 full graphs})`,
			Run: func(db *gorm.DB) error {
				return db.Create(&[]User{*fullUser("x"), *fullUser("y")}).Error
			},
			Delta: d("users", 2, "companies", 2, "offices", 2, "accounts", 2, "pets", 4, "toys", 4, "languages", 1, "user_languages", 4, "audits", 6)},
		{Name: "create-slice-ptr-shared-company", Kind: "create", Text: `Create(&[]*User{2 sharing Company{ID:2}, pets})`,
			Run: func(db *gorm.DB) error {
				return db.Create(&[]*User{
					{Name: "a", Company: Company{ID: 2, Name: "globex"}, Pets: []*Pet{{Name: "pa"}}},
					{Name: "b", Company: Company{ID: 2, Name: "globex"}, Pets: []*Pet{{Name: "pb"}}},
				}).Error
			},
			Delta: d("users", 2, "pets", 2, "audits", 4)},
		{Name: "create-map", Kind: "create", Text: `Model(&User{}).Create(map{name,age})`,
			Run: func(db *gorm.DB) error {
				return db.Model(&User{}).Create(map[string]interface{}{"name": "m", "age": 7}).Error
			},
			Delta: d("users", 1)},
		{Name: "create-omit-associations", Kind: "create", Text: `Omit(clause.Associations).Create(full graph)`,
			Run:   func(db *gorm.DB) error { return db.Omit(clause.Associations).Create(fullUser("zed")).Error },
			Delta: d("users", 1, "audits", 1)},
		{Name: "create-select-fields-and-pets", Kind: "create", Text: `Select("Name","Pets").Create(full graph)`,
			Run:   func(db *gorm.DB) error { return db.Select("Name", "Pets").Create(fullUser("zed")).Error },
			Delta: d("users", 1, "pets", 2, "audits", 3)},
		{Name: "create-upsert-existing-with-pets", Kind: "create", Text: `Clauses(OnConflict{UpdateAll}).Create(&User{ID:1, Pets: 1 new})`,
			Run: func(db *gorm.DB) error {
				return db.Clauses(clause.OnConflict{UpdateAll: true}).Create(&User{ID: 1, Name: "alice-up", Age: 33, Pets: []*Pet{{Name: "np"}}}).Error
			},
			Delta: d("pets", 1, "audits", 2)},
		{Name: "create-full-save-associations", Kind: "create", Text: `Session{FullSaveAssociations}.Create(&User{Company{ID:1 renamed}, Languages{en renamed}})`,
			Run: func(db *gorm.DB) error {
				return db.Session(&gorm.Session{FullSaveAssociations: true}).Create(&User{Name: "u", Company: Company{ID: 1, Name: "acme-fs"}, Languages: []Language{{Code: "en", Name: "English-fs"}}}).Error
			},
			Delta: d("users", 1, "user_languages", 1, "audits", 1)},
		// ------------------------------------------------------- CreateInBatches
		{Name: "batches-single-batch", Kind: "batch", Text: `CreateInBatches(&[]User{2 with pets}, 5)`,
			Run: func(db *gorm.DB) error {
				return db.CreateInBatches(&[]User{{Name: "a", Pets: []*Pet{{Name: "pa"}}}, {Name: "b"}}, 5).Error
			},
			Delta: d("users", 2, "pets", 1, "audits", 3)},
		{Name: "batches-ptr-slice", Kind: "batch", Text: `CreateInBatches([]*User{3 with toys}, 1)`,
			Run: func(db *gorm.DB) error {
				return db.CreateInBatches([]*User{{Name: "a", Toys: []Toy{{Name: "t"}}}, {Name: "b", Toys: []Toy{{Name: "t"}}}, {Name: "c"}}, 1).Error
			},
			Delta: d("users", 3, "toys", 2, "audits", 3)},
		// ------------------------------------------------------------------ Save
		{Name: "save-new-graph", Kind: "save", Text: `Save(&User{ID:0, full graph})`,
			Run:   func(db *gorm.DB) error { return db.Save(fullUser("zed")).Error },
			Delta: d("users", 1, "companies", 1, "offices", 1, "accounts", 1, "pets", 2, "toys", 2, "languages", 1, "user_languages", 2, "audits", 3)},
		{Name: "save-existing-plain", Kind: "save", Text: `Save(&User{ID:1, Name:"alice2", CompanyID:1})`,
			Run: func(db *gorm.DB) error {
				return db.Save(&User{ID: 1, Name: "alice2", Age: 31, CompanyID: up(1)}).Error
			},
			Delta: d("audits", 1)},
		{Name: "save-existing-with-associations", Kind: "save", Text: `Save(alice with changed company/account/pets(1 new)/languages(1 new))`,
			Run:   func(db *gorm.DB) error { return db.Save(changedAlice()).Error },
			Delta: d("pets", 1, "languages", 1, "user_languages", 1, "audits", 3)},
		{Name: "save-existing-full-save-associations", Kind: "save", Text: `Session{FullSaveAssociations}.Save(alice with changed associations)`,
			Run: func(db *gorm.DB) error {
				return db.Session(&gorm.Session{FullSaveAssociations: true}).Save(changedAlice()).Error
			},
			Delta: d("pets", 1, "languages", 1, "user_languages", 1, "audits", 3)},
		{Name: "save-absent-key-plain", Kind: "save", Text: `Save(&User{ID:99 (absent), Name:"ghost"})`,
			Run:   func(db *gorm.DB) error { return db.Save(&User{ID: 99, Name: "ghost"}).Error },
			Delta: d("users", 1, "audits", 1), Tags: []string{TagSaveAbsentHooks}},
		{Name: "save-absent-key-no-association-no-writing-hook", Kind: "save", Text: `Save(&Company{ID:99 (absent), Name:"ghost"})`,
			Run:   func(db *gorm.DB) error { return db.Save(&Company{ID: 99, Name: "ghost"}).Error },
			Delta: d("companies", 1)},
		{Name: "save-absent-string-key-plain", Kind: "save", Text: `Save(&Language{Code:"xx" (absent), Name:"X"})`,
			Run:   func(db *gorm.DB) error { return db.Save(&Language{Code: "xx", Name: "X"}).Error },
			Delta: d("languages", 1)},
		{Name: "save-absent-key-hookless-model", Kind: "save", Text: `Save(&Office{ID:99 (absent), CompanyID:1, City:"x"})`,
			Run:   func(db *gorm.DB) error { return db.Save(&Office{ID: 99, CompanyID: 1, City: "x"}).Error },
			Delta: d("offices", 1)},
		{Name: "save-absent-key-with-company", Kind: "save", Text: `Save(&User{ID:99 (absent), Company: Company{Name:"c"}})`,
			Run: func(db *gorm.DB) error {
				return db.Save(&User{ID: 99, Name: "ghost", Company: Company{Name: "c"}}).Error
			},
			Delta: d("users", 1, "companies", 1, "audits", 1), Tags: []string{TagSaveAbsent}},
		{Name: "save-absent-key-with-pets-languages", Kind: "save", Text: `Save(&User{ID:99 (absent), Pets:1, Languages:1 new})`,
			Run: func(db *gorm.DB) error {
				return db.Save(&User{ID: 99, Name: "ghost", Pets: []*Pet{{Name: "gp"}}, Languages: []Language{{Code: "it", Name: "Italian"}}}).Error
			},
			Delta: d("users", 1, "pets", 1, "languages", 1, "user_languages", 1, "audits", 2), Tags: []string{TagSaveAbsent}},
		{Name: "save-slice-mixed", Kind: "save", Text: `Save(&[]User{{ID:1 changed, Pets:1 new},{new}})`,
			Run: func(db *gorm.DB) error {
				return db.Save(&[]User{{ID: 1, Name: "alice3", Age: 32, CompanyID: up(1), Pets: []*Pet{{Name: "sp"}}}, {Name: "fresh"}}).Error
			},
			Delta: d("users", 1, "pets", 1, "audits", 3)},
		// ---------------------------------------------------------------- Update
		{Name: "update-single-column", Kind: "update", Text: `Model(&User{ID:1}).Update("name","x")`,
			Run:   func(db *gorm.DB) error { return db.Model(&User{ID: 1}).Update("name", "x").Error },
			Delta: d("audits", 1)},
		{Name: "updates-map", Kind: "update", Text: `Model(&User{ID:1}).Updates(map{name,age})`,
			Run: func(db *gorm.DB) error {
				return db.Model(&User{ID: 1}).Updates(map[string]interface{}{"name": "x", "age": 5}).Error
			},
			Delta: d("audits", 1)},
		{Name: "updates-struct", Kind: "update", Text: `Model(&User{ID:1}).Updates(User{Name:"x",Age:9})`,
			Run:   func(db *gorm.DB) error { return db.Model(&User{ID: 1}).Updates(User{Name: "x", Age: 9}).Error },
			Delta: d("audits", 1)},
		{Name: "updates-model-with-associations", Kind: "update", Text: `Updates(&User{ID:1, Name, Company{new}, Pets{1 new}, Account{new}, Languages{1 new}})`,
			Run: func(db *gorm.DB) error {
				return db.Updates(&User{ID: 1, Name: "x", Company: Company{Name: "upco"}, Pets: []*Pet{{Name: "up"}}, Account: Account{Number: "A-new"}, Languages: []Language{{Code: "it", Name: "Italian"}}}).Error
			},
			Delta: d("companies", 1, "pets", 1, "accounts", 1, "languages", 1, "user_languages", 1, "audits", 2)},
		{Name: "update-column-model-holding-associations", Kind: "update", Text: `Model(&User{ID:1, Company{new}, Toys{1 new}}).Update("name","y")`,
			Run: func(db *gorm.DB) error {
				return db.Model(&User{ID: 1, Company: Company{Name: "mco"}, Toys: []Toy{{Name: "ut"}}}).Update("name", "y").Error
			},
			Delta: d("companies", 1, "toys", 1, "audits", 1)},
		{Name: "updates-map-with-belongs-to-value", Kind: "update", Text: `Model(&User{ID:1}).Updates(map{"name":"y","Company":Company{Name:"mapco"}})`,
			Run: func(db *gorm.DB) error {
				return db.Model(&User{ID: 1}).Updates(map[string]interface{}{"name": "y", "Company": Company{Name: "mapco"}}).Error
			},
			Delta: d("companies", 1, "audits", 1)},
		{Name: "updates-full-save-associations", Kind: "update", Text: `Session{FullSaveAssociations}.Updates(alice with changed associations)`,
			Run: func(db *gorm.DB) error {
				return db.Session(&gorm.Session{FullSaveAssociations: true}).Updates(changedAlice()).Error
			},
			Delta: d("pets", 1, "languages", 1, "user_languages", 1, "audits", 3)},
		{Name: "updates-where-many-rows", Kind: "update", Text: `Model(&User{}).Where("age > ?",35).Updates(map{age})`,
			Run: func(db *gorm.DB) error {
				return db.Model(&User{}).Where("age > ?", 35).Updates(map[string]interface{}{"age": 99}).Error
			},
			Delta: d("audits", 1)},
		{Name: "updates-select-name-and-company", Kind: "update", Text: `Select("Name","Company").Updates(&User{ID:1, Company{new}, Pets{1 new}})`,
			Run: func(db *gorm.DB) error {
				return db.Select("Name", "Company").Updates(&User{ID: 1, Name: "x", Company: Company{Name: "selco"}, Pets: []*Pet{{Name: "ignored"}}}).Error
			},
			Delta: d("companies", 1, "audits", 1)},
		{Name: "update-columns-skip-hooks", Kind: "update", Text: `Model(&User{ID:2}).UpdateColumns(map{name,age})`,
			Run: func(db *gorm.DB) error {
				return db.Model(&User{ID: 2}).UpdateColumns(map[string]interface{}{"name": "q", "age": 1}).Error
			},
			Delta: d()},
		// ---------------------------------------------------------------- Delete
		{Name: "delete-plain", Kind: "delete", Text: `Delete(&User{ID:3})`,
			Run:   func(db *gorm.DB) error { return db.Delete(&User{ID: 3}).Error },
			Delta: d("users", -1, "audits", 1)},
		{Name: "delete-select-pets", Kind: "delete", Text: `Select("Pets").Delete(&User{ID:1})`,
			Run:   func(db *gorm.DB) error { return db.Select("Pets").Delete(&User{ID: 1}).Error },
			Delta: d("users", -1, "pets", -2, "audits", 1)},
		{Name: "delete-select-languages", Kind: "delete", Text: `Select("Languages").Delete(&User{ID:1})`,
			Run:   func(db *gorm.DB) error { return db.Select("Languages").Delete(&User{ID: 1}).Error },
			Delta: d("users", -1, "user_languages", -2, "audits", 1)},
		{Name: "delete-select-account", Kind: "delete", Text: `Select("Account").Delete(&User{ID:2})`,
			Run:   func(db *gorm.DB) error { return db.Select("Account").Delete(&User{ID: 2}).Error },
			Delta: d("users", -1, "accounts", -1, "audits", 1)},
		{Name: "delete-select-polymorphic", Kind: "delete", Text: `Select("Toys").Delete(&User{ID:1})`,
			Run:   func(db *gorm.DB) error { return db.Select("Toys").Delete(&User{ID: 1}).Error },
			Delta: d("users", -1, "toys", -1, "audits", 1)},
		{Name: "delete-select-pets-nested-toys", Kind: "delete", Text: `Select("Pets","Pets.Toys").Delete(&User{ID:1})`,
			Run:   func(db *gorm.DB) error { return db.Select("Pets", "Pets.Toys").Delete(&User{ID: 1}).Error },
			Delta: d("users", -1, "pets", -2, "audits", 1)},
		{Name: "delete-select-all-associations", Kind: "delete", Unordered: true, Text: `Select(clause.Associations).Delete(&User{ID:1})`,
			Run:   func(db *gorm.DB) error { return db.Select(clause.Associations).Delete(&User{ID: 1}).Error },
			Delta: d("users", -1, "accounts", -1, "pets", -2, "toys", -1, "user_languages", -2, "audits", 1)},
		{Name: "delete-select-pets-and-associations", Kind: "delete", Unordered: true, Text: `Select("Pets", clause.Associations).Delete(&User{ID:1})`,
			Run: func(db *gorm.DB) error {
				return db.Select("Pets", clause.Associations).Delete(&User{ID: 1}).Error
			},
			Delta: d("users", -1, "accounts", -1, "pets", -2, "toys", -1, "user_languages", -2, "audits", 1)},
		{Name: "delete-slice-select-pets", Kind: "delete", Text: `Select("Pets").Delete(&[]User{{ID:1},{ID:2}})`,
			Run: func(db *gorm.DB) error {
				return db.Select("Pets").Delete(&[]User{{ID: 1}, {ID: 2}}).Error
			},
			Delta: d("users", -2, "pets", -3, "audits", 2)},
		{Name: "delete-where-many-rows", Kind: "delete", Text: `Where("age > ?",35).Delete(&User{})`,
			Run:   func(db *gorm.DB) error { return db.Where("age > ?", 35).Delete(&User{}).Error },
			Delta: d("users", -2, "audits", 1)},
	}
	ops = append(ops, returningOps()...)
	ops = append(ops, batchOps()...)
	ops = append(ops, failingOps()...)
	ops = append(ops, readOps()...)
	return ops
}

// batchOps: CreateInBatches and Session{CreateBatchSize}.Create for every
// batch-count boundary: (len,size) with exactly one batch (2,2), one full and
// one partial batch (3,2), (5,3), (7,4), two full batches (4,2), two full and
// one partial (5,2) — with plain records and with records carrying nested
// associations (belongs-to, has-many, many-to-many).
func batchOps() []Op {
	var out []Op
	names := []string{"a", "b", "c", "d", "e", "f", "g"}
	mk := func(n int, graph bool) []User {
		us := make([]User, 0, n)
		for _, nm := range names[:n] {
			u := User{Name: nm}
			if graph {
				u.Company = Company{Name: nm + "-co"}
				u.Pets = []*Pet{{Name: nm + "-p"}}
				u.Languages = []Language{{Code: "l" + nm, Name: nm}}
			}
			us = append(us, u)
		}
		return us
	}
	for _, ls := range [][2]int{{2, 2}, {3, 2}, {5, 3}, {4, 2}, {5, 2}, {7, 4}} {
		n, size := ls[0], ls[1]
		for _, graph := range []bool{false, true} {
			if graph && n == 7 {
				continue
			}
			shape, delta := "plain", d("users", n, "audits", n)
			if graph {
				shape, delta = "graph", d("users", n, "companies", n, "pets", n, "languages", n, "user_languages", n, "audits", 2*n)
			}
			n, size, graph := n, size, graph
			out = append(out,
				Op{Name: fmt.Sprintf("batches-%dx%d-%s", n, size, shape), Kind: "batch",
					Text:  fmt.Sprintf("CreateInBatches(&[]User{%d %s}, %d)", n, shape, size),
					Run:   func(db *gorm.DB) error { us := mk(n, graph); return db.CreateInBatches(&us, size).Error },
					Delta: delta},
				Op{Name: fmt.Sprintf("batches-session-%dx%d-%s", n, size, shape), Kind: "batch",
					Text: fmt.Sprintf("Session{CreateBatchSize:%d}.Create(&[]User{%d %s})", size, n, shape),
					Run: func(db *gorm.DB) error {
						us := mk(n, graph)
						return db.Session(&gorm.Session{CreateBatchSize: size}).Create(&us).Error
					},
					Delta: delta})
		}
	}
	return out
}

func loadedAlice() *User { return &User{ID: 1, Name: "alice", Age: 30, CompanyID: up(1)} }

// readOps: reads, preloads, joins, batched reads, raw statements and
// association-mode operations (C18 only).
func readOps() []Op {
	assoc := func(db *gorm.DB, u *User, name string) *gorm.Association { return db.Model(u).Association(name) }
	return []Op{
		{Name: "first", Kind: "read", Text: `First(&u, 1)`,
			Run: func(db *gorm.DB) error { var u User; return db.First(&u, 1).Error }},
		{Name: "find-where", Kind: "read", Text: `Where("age > ?",1).Order("id").Find(&us)`,
			Run: func(db *gorm.DB) error { var us []User; return db.Where("age > ?", 1).Order("id").Find(&us).Error }},
		{Name: "count", Kind: "read", Text: `Model(&User{}).Count(&n)`,
			Run: func(db *gorm.DB) error { var n int64; return db.Model(&User{}).Count(&n).Error }},
		{Name: "pluck", Kind: "read", Text: `Model(&User{}).Pluck("name",&names)`,
			Run: func(db *gorm.DB) error { var s []string; return db.Model(&User{}).Pluck("name", &s).Error }},
		{Name: "scan", Kind: "read", Text: `Model(&User{}).Select("name","age").Scan(&rows)`,
			Run: func(db *gorm.DB) error {
				var r []struct {
					Name string
					Age  int
				}
				return db.Model(&User{}).Select("name", "age").Scan(&r).Error
			}},
		{Name: "rows-scanrows", Kind: "read", Text: `Model(&User{}).Rows() + ScanRows`,
			Run: func(db *gorm.DB) error {
				rows, err := db.Model(&User{}).Where("age > ?", 1).Rows()
				if err != nil {
					return err
				}
				defer rows.Close()
				for rows.Next() {
					var u User
					if err := db.ScanRows(rows, &u); err != nil {
						return err
					}
				}
				return rows.Err()
			}},
		{Name: "row", Kind: "read", Text: `Model(&User{}).Select("name").Where(id=1).Row().Scan`,
			Run: func(db *gorm.DB) error {
				var s string
				row := db.Model(&User{}).Select("name").Where("id = ?", 1).Row()
				if row == nil {
					return nil
				}
				return row.Scan(&s)
			}},
		{Name: "raw-scan", Kind: "read", Text: `Raw("SELECT name FROM users WHERE id = ?",1).Scan(&s)`,
			Run: func(db *gorm.DB) error {
				var s string
				return db.Raw("SELECT name FROM users WHERE id = ?", 1).Scan(&s).Error
			}},
		{Name: "exec", Kind: "read", Text: `Exec("UPDATE users SET age = age + 1 WHERE id = ?",3)`,
			Run: func(db *gorm.DB) error { return db.Exec("UPDATE users SET age = age + 1 WHERE id = ?", 3).Error }},
		{Name: "first-or-create-found", Kind: "read", Text: `Where(User{Name:"alice"}).Assign(User{Age:77}).FirstOrCreate(&u)`,
			Run: func(db *gorm.DB) error {
				var u User
				return db.Where(User{Name: "alice"}).Assign(User{Age: 77}).FirstOrCreate(&u).Error
			}},
		{Name: "first-or-create-missing", Kind: "read", Text: `Where(User{Name:"nobody"}).Attrs(User{Age:5}).FirstOrCreate(&u)`,
			Run: func(db *gorm.DB) error {
				var u User
				return db.Where(User{Name: "nobody"}).Attrs(User{Age: 5}).FirstOrCreate(&u).Error
			}},
		{Name: "first-or-init", Kind: "read", Text: `Where(User{Name:"nobody"}).FirstOrInit(&u)`,
			Run: func(db *gorm.DB) error { var u User; return db.Where(User{Name: "nobody"}).FirstOrInit(&u).Error }},
		{Name: "preload-all", Kind: "read", Text: `Preload(clause.Associations).Find(&us)`,
			Run: func(db *gorm.DB) error { var us []User; return db.Preload(clause.Associations).Find(&us).Error }},
		{Name: "preload-nested", Kind: "read", Text: `Preload("Pets.Toys").Preload("Languages").Preload("Company.Offices").First(&u,1)`,
			Run: func(db *gorm.DB) error {
				var u User
				return db.Preload("Pets.Toys").Preload("Languages").Preload("Company.Offices").First(&u, 1).Error
			}},
		{Name: "preload-condition", Kind: "read", Text: `Preload("Pets","name <> ?","x").Find(&us)`,
			Run: func(db *gorm.DB) error { var us []User; return db.Preload("Pets", "name <> ?", "x").Find(&us).Error }},
		{Name: "preload-func", Kind: "read", Text: `Preload("Pets", func(db){Order("id desc")}).Preload("Toys").Find(&us)`,
			Run: func(db *gorm.DB) error {
				var us []User
				return db.Preload("Pets", func(d *gorm.DB) *gorm.DB { return d.Order("id desc") }).Preload("Toys").Find(&us).Error
			}},
		{Name: "joins", Kind: "read", Text: `Joins("Company").Joins("Account").Find(&us)`,
			Run: func(db *gorm.DB) error { var us []User; return db.Joins("Company").Joins("Account").Find(&us).Error }},
		{Name: "joins-preload-through-join", Kind: "read", Text: `Joins("Company").Preload("Company.Offices").Preload("Pets.Toys").Find(&us)`,
			Run: func(db *gorm.DB) error {
				var us []User
				return db.Joins("Company").Preload("Company.Offices").Preload("Pets.Toys").Find(&us).Error
			}},
		{Name: "inner-joins-first", Kind: "read", Text: `InnerJoins("Company").Preload("Company.Offices").First(&u,1)`,
			Run: func(db *gorm.DB) error {
				var u User
				return db.InnerJoins("Company").Preload("Company.Offices").First(&u, 1).Error
			}},
		{Name: "find-in-batches", Kind: "read", Text: `FindInBatches(&us,2,func(tx){tx.Model(&Pet{}).Count; tx.Model(&us[0]).Update})`,
			Run: func(db *gorm.DB) error {
				var us []User
				return db.FindInBatches(&us, 2, func(tx *gorm.DB, batch int) error {
					var n int64
					if err := tx.Model(&Pet{}).Where("user_id = ?", us[0].ID).Count(&n).Error; err != nil {
						return err
					}
					return tx.Model(&us[0]).Update("age", 60+batch).Error
				}).Error
			}},
		{Name: "find-in-batches-preload", Kind: "read", Text: `Preload("Pets.Toys").Where("age > ?",1).FindInBatches(&us,1,noop)`,
			Run: func(db *gorm.DB) error {
				var us []User
				return db.Preload("Pets.Toys").Where("age > ?", 1).FindInBatches(&us, 1, func(tx *gorm.DB, batch int) error { return nil }).Error
			}},
		// ------------------------------------------------------ association mode
		{Name: "assoc-find-has-many", Kind: "assoc", Text: `Model(&alice).Association("Pets").Find(&pets)`,
			Run: func(db *gorm.DB) error { var ps []Pet; return assoc(db, loadedAlice(), "Pets").Find(&ps) }},
		{Name: "assoc-find-m2m", Kind: "assoc", Text: `Model(&alice).Association("Languages").Find(&ls)`,
			Run: func(db *gorm.DB) error { var ls []Language; return assoc(db, loadedAlice(), "Languages").Find(&ls) }},
		{Name: "assoc-find-belongs-to", Kind: "assoc", Text: `Model(&alice).Association("Company").Find(&c)`,
			Run: func(db *gorm.DB) error { var c Company; return assoc(db, loadedAlice(), "Company").Find(&c) }},
		{Name: "assoc-count-has-many", Kind: "assoc", Text: `Association("Pets").Count()`,
			Run: func(db *gorm.DB) error { a := assoc(db, loadedAlice(), "Pets"); a.Count(); return a.Error }},
		{Name: "assoc-count-m2m", Kind: "assoc", Text: `Association("Languages").Count()`,
			Run: func(db *gorm.DB) error { a := assoc(db, loadedAlice(), "Languages"); a.Count(); return a.Error }},
		{Name: "assoc-count-polymorphic", Kind: "assoc", Text: `Association("Toys").Count()`,
			Run: func(db *gorm.DB) error { a := assoc(db, loadedAlice(), "Toys"); a.Count(); return a.Error }},
		{Name: "assoc-append-has-many", Kind: "assoc", Text: `Association("Pets").Append(&Pet{Name, Toys:1})`,
			Run: func(db *gorm.DB) error {
				return assoc(db, loadedAlice(), "Pets").Append(&Pet{Name: "ap", Toys: []Toy{{Name: "apt"}}})
			}},
		{Name: "assoc-append-m2m", Kind: "assoc", Text: `Association("Languages").Append(&Language{it}, &Language{fr})`,
			Run: func(db *gorm.DB) error {
				return assoc(db, loadedAlice(), "Languages").Append(&Language{Code: "it", Name: "Italian"}, &Language{Code: "fr", Name: "French"})
			}},
		{Name: "assoc-append-belongs-to", Kind: "assoc", Text: `Association("Company").Append(&Company{Name:"apco"})`,
			Run: func(db *gorm.DB) error { return assoc(db, loadedAlice(), "Company").Append(&Company{Name: "apco"}) }},
		{Name: "assoc-append-has-one", Kind: "assoc", Text: `Association("Account").Append(&Account{Number})`,
			Run: func(db *gorm.DB) error { return assoc(db, loadedAlice(), "Account").Append(&Account{Number: "A-app"}) }},
		{Name: "assoc-append-polymorphic", Kind: "assoc", Text: `Association("Toys").Append(&Toy{})`,
			Run: func(db *gorm.DB) error { return assoc(db, loadedAlice(), "Toys").Append(&Toy{Name: "at"}) }},
		{Name: "assoc-append-slice-parent", Kind: "assoc", Text: `Model(&[]User{alice,bob}).Association("Pets").Append(&Pet{},&Pet{})`,
			Run: func(db *gorm.DB) error {
				us := []User{{ID: 1}, {ID: 2}}
				return db.Model(&us).Association("Pets").Append(&Pet{Name: "s1"}, &Pet{Name: "s2"})
			}},
		{Name: "assoc-replace-has-many", Kind: "assoc", Text: `Association("Pets").Replace(&Pet{ID:1}, &Pet{Name:"rp"})`,
			Run: func(db *gorm.DB) error {
				return assoc(db, loadedAlice(), "Pets").Replace(&Pet{ID: 1, Name: "rex"}, &Pet{Name: "rp"})
			}},
		{Name: "assoc-replace-m2m", Kind: "assoc", Text: `Association("Languages").Replace(&Language{fr})`,
			Run: func(db *gorm.DB) error {
				return assoc(db, loadedAlice(), "Languages").Replace(&Language{Code: "fr", Name: "French"})
			}},
		{Name: "assoc-replace-has-one", Kind: "assoc", Text: `Association("Account").Replace(&Account{Number})`,
			Run: func(db *gorm.DB) error { return assoc(db, loadedAlice(), "Account").Replace(&Account{Number: "A-rep"}) }},
		{Name: "assoc-replace-belongs-to", Kind: "assoc", Text: `Association("Company").Replace(&Company{ID:2})`,
			Run: func(db *gorm.DB) error {
				return assoc(db, loadedAlice(), "Company").Replace(&Company{ID: 2, Name: "globex"})
			}},
		{Name: "assoc-delete-has-many", Kind: "assoc", Text: `Association("Pets").Delete(&Pet{ID:1})`,
			Run: func(db *gorm.DB) error { return assoc(db, loadedAlice(), "Pets").Delete(&Pet{ID: 1}) }},
		{Name: "assoc-delete-m2m", Kind: "assoc", Text: `Association("Languages").Delete(&Language{Code:"en"})`,
			Run: func(db *gorm.DB) error { return assoc(db, loadedAlice(), "Languages").Delete(&Language{Code: "en"}) }},
		{Name: "assoc-delete-belongs-to", Kind: "assoc", Text: `Association("Company").Delete(&Company{ID:1})`,
			Run: func(db *gorm.DB) error { return assoc(db, loadedAlice(), "Company").Delete(&Company{ID: 1}) }},
		{Name: "assoc-unscoped-delete-has-many", Kind: "assoc", Text: `Association("Pets").Unscoped().Delete(&Pet{ID:2})`,
			Run: func(db *gorm.DB) error { return assoc(db, loadedAlice(), "Pets").Unscoped().Delete(&Pet{ID: 2}) }},
		{Name: "assoc-unscoped-delete-belongs-to", Kind: "assoc", Text: `Association("Company").Unscoped().Delete(&Company{ID:1})`,
			Run: func(db *gorm.DB) error {
				return assoc(db, loadedAlice(), "Company").Unscoped().Delete(&Company{ID: 1})
			}},
		{Name: "assoc-clear-has-many", Kind: "assoc", Text: `Association("Pets").Clear()`,
			Run: func(db *gorm.DB) error { return assoc(db, loadedAlice(), "Pets").Clear() }},
		{Name: "assoc-clear-m2m", Kind: "assoc", Text: `Association("Languages").Clear()`,
			Run: func(db *gorm.DB) error { return assoc(db, loadedAlice(), "Languages").Clear() }},
		{Name: "assoc-clear-belongs-to", Kind: "assoc", Text: `Association("Company").Clear()`,
			Run: func(db *gorm.DB) error { return assoc(db, loadedAlice(), "Company").Clear() }},
		{Name: "assoc-clear-polymorphic", Kind: "assoc", Text: `Association("Toys").Clear()`,
			Run: func(db *gorm.DB) error { return assoc(db, loadedAlice(), "Toys").Clear() }},
		{Name: "assoc-unscoped-clear-has-many", Kind: "assoc", Text: `Association("Pets").Unscoped().Clear()`,
			Run: func(db *gorm.DB) error { return assoc(db, loadedAlice(), "Pets").Unscoped().Clear() }},
		{Name: "assoc-unscoped-replace-belongs-to", Kind: "assoc", Text: `Association("Company").Unscoped().Replace(&Company{Name:"urc"})`,
			Run: func(db *gorm.DB) error {
				return assoc(db, loadedAlice(), "Company").Unscoped().Replace(&Company{Name: "urc"})
			}},
	}
}

// failingOps: writes that really fail in the database, at the 2nd or a later
// row of a multi-row INSERT (slice Create, nested has-many / polymorphic /
// many-to-many children, a later batch), plus a single-row control.
func failingOps() []Op {
	f := func(name, kind, text string, run func(db *gorm.DB) error) Op {
		return Op{Name: name, Kind: kind, Text: text, Run: run, Fails: true}
	}
	return []Op{
		f("fail-single-row-check", "create", `Create(&User{Name:"INVALID"}) (CHECK)`,
			func(db *gorm.DB) error { return db.Create(&User{Name: "INVALID"}).Error }),
		f("fail-slice-2nd-row-check", "create", `Create(&[]User{{ok},{Name:"INVALID"},{ok}}) (CHECK at row 2)`,
			func(db *gorm.DB) error {
				return db.Create(&[]User{{Name: "ok1"}, {Name: "INVALID"}, {Name: "ok2"}}).Error
			}),
		f("fail-slice-ptr-3rd-row-unique", "create", `Create(&[]*Pet{{uniq-b},{c},{uniq-b}}) (UNIQUE at row 3)`,
			func(db *gorm.DB) error {
				return db.Create(&[]*Pet{{Name: "uniq-b"}, {Name: "c"}, {Name: "uniq-b"}}).Error
			}),
		f("fail-has-many-2nd-child-check", "create", `Create(&User{Pets:{ok},{INVALID}})`,
			func(db *gorm.DB) error {
				return db.Create(&User{Name: "u", Pets: []*Pet{{Name: "ok"}, {Name: "INVALID"}}}).Error
			}),
		f("fail-has-many-children-collide-unique", "create", `Create(&User{Pets:{uniq-a},{uniq-a}})`,
			func(db *gorm.DB) error {
				return db.Create(&User{Name: "u", Pets: []*Pet{{Name: "uniq-a"}, {Name: "uniq-a"}}}).Error
			}),
		f("fail-polymorphic-2nd-child-check", "create", `Create(&User{Account, Toys:{ok},{INVALID}})`,
			func(db *gorm.DB) error {
				return db.Create(&User{Name: "u", Account: Account{Number: "n"}, Toys: []Toy{{Name: "ok"}, {Name: "INVALID"}}}).Error
			}),
		f("fail-m2m-2nd-element-check", "create", `Create(&User{Pets:1, Languages:{it},{zz INVALID}})`,
			func(db *gorm.DB) error {
				return db.Create(&User{Name: "u", Pets: []*Pet{{Name: "p"}}, Languages: []Language{{Code: "it", Name: "Italian"}, {Code: "zz", Name: "INVALID"}}}).Error
			}),
		f("fail-slice-parents-nested-children-collide", "create", `Create(&[]User{{Pets:{uniq-c}},{Pets:{uniq-c}}})`,
			func(db *gorm.DB) error {
				return db.Create(&[]User{{Name: "a", Pets: []*Pet{{Name: "uniq-c"}}}, {Name: "b", Pets: []*Pet{{Name: "uniq-c"}}}}).Error
			}),
		f("fail-batches-2nd-batch-2nd-row-check", "batch", `CreateInBatches(&[]User{a,b,c,INVALID}, 2)`,
			func(db *gorm.DB) error {
				return db.CreateInBatches(&[]User{{Name: "a"}, {Name: "b"}, {Name: "c"}, {Name: "INVALID"}}, 2).Error
			}),
		f("fail-save-existing-new-children-collide", "save", `Save(&User{ID:1,…, Pets:{ID:1},{uniq-d},{uniq-d}})`,
			func(db *gorm.DB) error {
				return db.Save(&User{ID: 1, Name: "alice2", Age: 31, CompanyID: up(1), Pets: []*Pet{{ID: 1, UserID: up(1), Name: "rex"}, {Name: "uniq-d"}, {Name: "uniq-d"}}}).Error
			}),
		f("fail-updates-2nd-child-check", "update", `Updates(&User{ID:1, Name, Company{new}, Toys:{ok},{INVALID}})`,
			func(db *gorm.DB) error {
				return db.Updates(&User{ID: 1, Name: "x", Company: Company{Name: "upco"}, Toys: []Toy{{Name: "ok"}, {Name: "INVALID"}}}).Error
			}),
	}
}

// returningOps: the RETURNING / scan executor branch of every write finisher
// (on the dialector without RETURNING support the same programs take the exec
// branch): Delete, Update, Updates, UpdateColumn(s) and Create with an explicit
// clause.Returning, with and without column list, single row and many rows.
func returningOps() []Op {
	cols := func(names ...string) clause.Returning {
		r := clause.Returning{}
		for _, n := range names {
			r.Columns = append(r.Columns, clause.Column{Name: n})
		}
		return r
	}
	return []Op{
		{Name: "create-returning-columns", Kind: "create", Text: `Clauses(Returning{id,name,age}).Create(&User{Name, Pets:1})`,
			Run: func(db *gorm.DB) error {
				return db.Clauses(cols("id", "name", "age")).Create(&User{Name: "r", Pets: []*Pet{{Name: "rp"}}}).Error
			},
			Delta: d("users", 1, "pets", 1, "audits", 2)},
		{Name: "update-returning-all", Kind: "update", Text: `Model(&User{ID:1}).Clauses(Returning{}).Update("name","x")`,
			Run: func(db *gorm.DB) error {
				u := User{ID: 1}
				return db.Model(&u).Clauses(clause.Returning{}).Update("name", "x").Error
			},
			Delta: d("audits", 1)},
		{Name: "updates-returning-columns-many-rows", Kind: "update", Text: `Model(&[]User{}).Clauses(Returning{name,age}).Where("age > ?",35).Updates(map{age})`,
			Run: func(db *gorm.DB) error {
				var us []User
				return db.Model(&us).Clauses(cols("name", "age")).Where("age > ?", 35).Updates(map[string]interface{}{"age": 99}).Error
			},
			Delta: d("audits", 2), DeltaNoReturning: d()},
		{Name: "updates-returning-hookless-many-rows", Kind: "update", Text: `Model(&[]Office{}).Clauses(Returning{city}).Where("company_id = ?",1).Updates(map{city})`,
			Run: func(db *gorm.DB) error {
				var os []Office
				return db.Model(&os).Clauses(cols("city")).Where("company_id = ?", 1).Updates(map[string]interface{}{"city": "x"}).Error
			},
			Delta: d()},
		{Name: "delete-returning-hookless-many-rows", Kind: "delete", Text: `Clauses(Returning{}).Where("company_id = ?",1).Delete(&[]Office{})`,
			Run: func(db *gorm.DB) error {
				var os []Office
				return db.Clauses(clause.Returning{}).Where("company_id = ?", 1).Delete(&os).Error
			},
			Delta: d("offices", -2)},
		{Name: "updates-returning-model-with-associations", Kind: "update", Text: `Model(&User{ID:1, Company{new}, Toys:1}).Clauses(Returning{}).Updates(User{Name,Age})`,
			Run: func(db *gorm.DB) error {
				u := User{ID: 1, Company: Company{Name: "retco"}, Toys: []Toy{{Name: "rt"}}}
				return db.Model(&u).Clauses(clause.Returning{}).Updates(User{Name: "x", Age: 9}).Error
			},
			Delta: d("companies", 1, "toys", 1, "audits", 1)},
		{Name: "update-column-returning", Kind: "update", Text: `Model(&User{ID:2}).Clauses(Returning{}).UpdateColumn("age",7)`,
			Run: func(db *gorm.DB) error {
				u := User{ID: 2}
				return db.Model(&u).Clauses(clause.Returning{}).UpdateColumn("age", 7).Error
			},
			Delta: d()},
		{Name: "update-columns-returning-columns", Kind: "update", Text: `Model(&User{ID:2}).Clauses(Returning{id,age}).UpdateColumns(map{name,age})`,
			Run: func(db *gorm.DB) error {
				u := User{ID: 2}
				return db.Model(&u).Clauses(cols("id", "age")).UpdateColumns(map[string]interface{}{"name": "q", "age": 1}).Error
			},
			Delta: d()},
		{Name: "delete-returning-all-many-rows", Kind: "delete", Text: `Clauses(Returning{}).Where("age > ?",35).Delete(&[]User{})`,
			Run: func(db *gorm.DB) error {
				var us []User
				return db.Clauses(clause.Returning{}).Where("age > ?", 35).Delete(&us).Error
			},
			Delta: d("users", -2, "audits", 2), DeltaNoReturning: d("users", -2)},
		{Name: "delete-returning-columns", Kind: "delete", Text: `Clauses(Returning{id,name}).Delete(&User{ID:3})`,
			Run: func(db *gorm.DB) error {
				return db.Clauses(cols("id", "name")).Delete(&User{ID: 3}).Error
			},
			Delta: d("users", -1, "audits", 1)},
		{Name: "delete-returning-select-pets", Kind: "delete", Text: `Select("Pets").Clauses(Returning{}).Delete(&User{ID:1})`,
			Run: func(db *gorm.DB) error {
				return db.Select("Pets").Clauses(clause.Returning{}).Delete(&User{ID: 1}).Error
			},
			Delta: d("users", -1, "pets", -2, "audits", 1)},
	}
}
