package opcat

import (
	"fmt"

	"gorm.io/driver/sqlite"
	"gorm.io/gorm"
	"gorm.io/gorm/logger"

	"verif/drivers/recsqlite"
	"verif/h"
)

// noReturning is h.NoReturning (default callbacks registered without
// RETURNING: the LastInsertId path) that still forwards save points to the
// wrapped SQLite dialector; h.NoReturning embeds the Dialector interface and so
// hides SavePoint/RollbackTo, which makes every nested transaction fail with
// ErrUnsupportedDriver.
type noReturning struct{ h.NoReturning }

func (d noReturning) SavePoint(tx *gorm.DB, name string) error {
	return d.Dialector.(gorm.SavePointerDialectorInterface).SavePoint(tx, name)
}

func (d noReturning) RollbackTo(tx *gorm.DB, name string) error {
	return d.Dialector.(gorm.SavePointerDialectorInterface).RollbackTo(tx, name)
}

// Open is h.OpenWith with the save-point capable LastInsertId dialector.
func Open(cfg *gorm.Config, lastInsertID bool) *h.Env {
	if !lastInsertID {
		return h.OpenWith(cfg, false)
	}
	rec := &recsqlite.Recorder{}
	sqldb := recsqlite.Open(rec)
	var c gorm.Config
	if cfg != nil {
		c = *cfg
	}
	clock := new(int64)
	if c.Logger == nil {
		c.Logger = logger.Discard
	}
	if c.NowFunc == nil {
		c.NowFunc = h.CounterClock(clock)
	}
	rec.Pause()
	db, err := gorm.Open(noReturning{h.NoReturning{Dialector: sqlite.New(sqlite.Config{Conn: sqldb})}}, &c)
	rec.Resume()
	if err != nil {
		panic(fmt.Sprintf("opcat.Open: %v", err))
	}
	return &h.Env{DB: db, SQL: sqldb, Rec: rec, Clock: clock}
}
