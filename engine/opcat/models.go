// Package opcat is the operation catalogue shared by the C05 (all-or-nothing
// writes) and C18 (context propagation) harnesses: a hand-written model family
// (user belongs-to company, has-one account, has-many pets, many-to-many
// languages, polymorphic toys, company has-many offices), hooks on every model
// that report to a controller (which can make any single invocation fail and
// can make selected hooks write through the transaction handle they receive),
// a fixed seed state and ~45 write operations plus reads / association-mode
// operations.
package opcat

import (
	"errors"
	"strings"
	"sync"
	"time"

	"gorm.io/gorm"

	"verif/h"
)

type Company struct {
	ID      uint
	Name    string
	Offices []Office
}

type Office struct {
	ID        uint
	CompanyID uint
	City      string
}

type Account struct {
	ID     uint
	UserID *uint
	Number string
}

type Pet struct {
	ID     uint
	UserID *uint
	Name   string
	Toys   []Toy `gorm:"polymorphic:Owner"`
}

type Toy struct {
	ID        uint
	Name      string
	OwnerID   uint
	OwnerType string
}

type Language struct {
	Code string `gorm:"primaryKey"`
	Name string
}

type Audit struct {
	ID  uint
	Msg string
}

type User struct {
	ID        uint
	Name      string
	Age       int
	UpdatedAt time.Time
	CompanyID *uint
	Company   Company
	Account   Account
	Pets      []*Pet
	Toys      []Toy      `gorm:"polymorphic:Owner"`
	Languages []Language `gorm:"many2many:user_languages"`
}

// Tables lists every table of the family (dump order).
var Tables = []string{"companies", "offices", "users", "accounts", "pets", "toys", "languages", "user_languages", "audits"}

var ddl = []string{
	"CREATE TABLE companies (id integer primary key autoincrement, name text)",
	"CREATE TABLE offices (id integer primary key autoincrement, company_id integer, city text)",
	"CREATE TABLE users (id integer primary key autoincrement, name text CHECK (name <> 'INVALID'), age integer, updated_at datetime, company_id integer)",
	"CREATE TABLE accounts (id integer primary key autoincrement, user_id integer, number text)",
	"CREATE TABLE pets (id integer primary key autoincrement, user_id integer, name text CHECK (name <> 'INVALID'))",
	// only names starting with uniq- must be unique: real UNIQUE failures without
	// touching the upserts of the other operations
	"CREATE UNIQUE INDEX uq_pets_name ON pets(name) WHERE name LIKE 'uniq-%'",
	"CREATE TABLE toys (id integer primary key autoincrement, name text CHECK (name <> 'INVALID'), owner_id integer, owner_type text)",
	"CREATE TABLE languages (code text primary key, name text CHECK (name <> 'INVALID'))",
	"CREATE TABLE user_languages (user_id integer, language_code text, primary key (user_id, language_code))",
	"CREATE TABLE audits (id integer primary key autoincrement, msg text)",
}

var seed = []string{
	"INSERT INTO companies (id,name) VALUES (1,'acme'),(2,'globex')",
	"INSERT INTO offices (id,company_id,city) VALUES (1,1,'berlin'),(2,1,'paris'),(3,2,'rome')",
	"INSERT INTO users (id,name,age,updated_at,company_id) VALUES (1,'alice',30,'2019-01-01 00:00:00+00:00',1),(2,'bob',40,'2019-01-01 00:00:00+00:00',2),(3,'carol',50,'2019-01-01 00:00:00+00:00',NULL)",
	"INSERT INTO accounts (id,user_id,number) VALUES (1,1,'A-1'),(2,2,'A-2')",
	"INSERT INTO pets (id,user_id,name) VALUES (1,1,'rex'),(2,1,'tom'),(3,2,'kit')",
	"INSERT INTO toys (id,name,owner_id,owner_type) VALUES (1,'ball',1,'pets'),(2,'bone',1,'pets'),(3,'car',1,'users'),(4,'mouse',3,'pets'),(5,'kite',2,'users')",
	"INSERT INTO languages (code,name) VALUES ('en','English'),('de','German'),('fr','French')",
	"INSERT INTO user_languages (user_id,language_code) VALUES (1,'en'),(1,'de'),(2,'en')",
}

// SeedCounts is the number of rows per table in the seed state.
var SeedCounts = map[string]int{"companies": 2, "offices": 3, "users": 3, "accounts": 2, "pets": 3, "toys": 5, "languages": 3, "user_languages": 3, "audits": 0}

// Setup creates the tables and the seed rows on a fresh Env (not recorded) and
// installs a fresh hook controller, which it returns.
func Setup(e *h.Env) *HookCtl {
	for _, s := range ddl {
		e.MustExec(s)
	}
	for _, s := range seed {
		e.MustExec(s)
	}
	c := &HookCtl{}
	if err := e.DB.Use(c); err != nil {
		panic(err)
	}
	return c
}

// ---------------------------------------------------------------------------
// hook controller

// ErrHook is what a hook returns when the controller tells it to fail.
var ErrHook = errors.New("verif: injected hook failure")

const pluginName = "verif:hookctl"

// HookCtl is registered as a gorm plugin so that hooks can find the controller
// of *their* database through tx.Config.Plugins (no globals: 16 environments
// run in parallel).
type HookCtl struct {
	mu     sync.Mutex
	n      int
	labels []string
	// Fail is consulted at every hook invocation (idx counts from 0); a non-nil
	// return makes the hook return that error.
	Fail func(idx int, label string) error
	// Audit makes User.AfterCreate/AfterUpdate/AfterDelete and Pet.AfterCreate
	// insert an audits row through the handle the hook received.
	Audit bool
	// QueryInFind makes User.AfterFind run a COUNT through its handle.
	QueryInFind bool
}

func (c *HookCtl) Name() string              { return pluginName }
func (c *HookCtl) Initialize(*gorm.DB) error { return nil }

// N returns the number of hook invocations so far.
func (c *HookCtl) N() int { c.mu.Lock(); defer c.mu.Unlock(); return c.n }

// Labels returns the hook invocations so far ("User.BeforeCreate" …).
func (c *HookCtl) Labels() []string {
	c.mu.Lock()
	defer c.mu.Unlock()
	return append([]string(nil), c.labels...)
}

func (c *HookCtl) Reset() { c.mu.Lock(); c.n = 0; c.labels = nil; c.mu.Unlock() }

func hook(tx *gorm.DB, label string) error {
	if tx == nil || tx.Config == nil {
		return nil
	}
	c, _ := tx.Config.Plugins[pluginName].(*HookCtl)
	if c == nil {
		return nil
	}
	c.mu.Lock()
	idx := c.n
	c.n++
	c.labels = append(c.labels, label)
	f := c.Fail
	c.mu.Unlock()
	if f != nil {
		if err := f(idx, label); err != nil {
			return err
		}
	}
	if c.Audit {
		switch label {
		case "User.AfterCreate", "User.AfterUpdate", "User.AfterDelete", "Pet.AfterCreate":
			return tx.Create(&Audit{Msg: label}).Error
		}
	}
	if c.QueryInFind && label == "User.AfterFind" {
		var n int64
		return tx.Model(&Company{}).Where("name <> ?", "").Count(&n).Error
	}
	return nil
}

// IsAfter tells whether a hook label is an After* hook.
func IsAfter(label string) bool { return strings.Contains(label, ".After") }

func (u *User) BeforeSave(tx *gorm.DB) error   { return hook(tx, "User.BeforeSave") }
func (u *User) BeforeCreate(tx *gorm.DB) error { return hook(tx, "User.BeforeCreate") }
func (u *User) AfterCreate(tx *gorm.DB) error  { return hook(tx, "User.AfterCreate") }
func (u *User) AfterSave(tx *gorm.DB) error    { return hook(tx, "User.AfterSave") }
func (u *User) BeforeUpdate(tx *gorm.DB) error { return hook(tx, "User.BeforeUpdate") }
func (u *User) AfterUpdate(tx *gorm.DB) error  { return hook(tx, "User.AfterUpdate") }
func (u *User) BeforeDelete(tx *gorm.DB) error { return hook(tx, "User.BeforeDelete") }
func (u *User) AfterDelete(tx *gorm.DB) error  { return hook(tx, "User.AfterDelete") }
func (u *User) AfterFind(tx *gorm.DB) error    { return hook(tx, "User.AfterFind") }

func (p *Pet) BeforeSave(tx *gorm.DB) error   { return hook(tx, "Pet.BeforeSave") }
func (p *Pet) BeforeCreate(tx *gorm.DB) error { return hook(tx, "Pet.BeforeCreate") }
func (p *Pet) AfterCreate(tx *gorm.DB) error  { return hook(tx, "Pet.AfterCreate") }
func (p *Pet) AfterSave(tx *gorm.DB) error    { return hook(tx, "Pet.AfterSave") }
func (p *Pet) BeforeUpdate(tx *gorm.DB) error { return hook(tx, "Pet.BeforeUpdate") }
func (p *Pet) AfterUpdate(tx *gorm.DB) error  { return hook(tx, "Pet.AfterUpdate") }
func (p *Pet) BeforeDelete(tx *gorm.DB) error { return hook(tx, "Pet.BeforeDelete") }
func (p *Pet) AfterDelete(tx *gorm.DB) error  { return hook(tx, "Pet.AfterDelete") }

func (c *Company) BeforeCreate(tx *gorm.DB) error { return hook(tx, "Company.BeforeCreate") }
func (c *Company) AfterCreate(tx *gorm.DB) error  { return hook(tx, "Company.AfterCreate") }
func (c *Company) BeforeSave(tx *gorm.DB) error   { return hook(tx, "Company.BeforeSave") }
func (c *Company) AfterSave(tx *gorm.DB) error    { return hook(tx, "Company.AfterSave") }

func (o *Office) AfterCreate(tx *gorm.DB) error { return hook(tx, "Office.AfterCreate") }

func (a *Account) BeforeSave(tx *gorm.DB) error   { return hook(tx, "Account.BeforeSave") }
func (a *Account) AfterSave(tx *gorm.DB) error    { return hook(tx, "Account.AfterSave") }
func (a *Account) BeforeDelete(tx *gorm.DB) error { return hook(tx, "Account.BeforeDelete") }
func (a *Account) AfterDelete(tx *gorm.DB) error  { return hook(tx, "Account.AfterDelete") }

func (t *Toy) BeforeCreate(tx *gorm.DB) error { return hook(tx, "Toy.BeforeCreate") }
func (t *Toy) AfterCreate(tx *gorm.DB) error  { return hook(tx, "Toy.AfterCreate") }
func (t *Toy) BeforeDelete(tx *gorm.DB) error { return hook(tx, "Toy.BeforeDelete") }

func (l *Language) BeforeCreate(tx *gorm.DB) error { return hook(tx, "Language.BeforeCreate") }
func (l *Language) AfterSave(tx *gorm.DB) error    { return hook(tx, "Language.AfterSave") }
