package proggram

import (
	"database/sql"

	"gorm.io/gorm"
	"gorm.io/gorm/clause"
)

// Fin is a finisher. Result bundles what the caller may need to clean up.
type Fin struct {
	Label string
	Kind  string // query update delete create raw exec
	Slots []SlotSpec
	Run   func(db *gorm.DB, c *Ctx, v []Val) *gorm.DB
	// Builds: clause kinds of Op.Clause that this finisher renders.
	Builds map[string]bool
	// May: clause kinds that are rendered only under further conditions
	// (Count keeps ORDER BY only when a GROUP BY exists).
	May   map[string]bool
	Write bool
	// ReturnsError: the finisher itself cannot work in DryRun mode (Rows/Scan)
	DryUnsupported bool
	// Rep: member of the reduced finisher set (one per code path)
	Rep bool
}

func set(names ...string) map[string]bool {
	m := map[string]bool{}
	for _, n := range names {
		m[n] = true
	}
	return m
}

var (
	bQuery  = set("WHERE", "SELECT", "HAVING", "JOIN", "ORDER", "LIMIT", "OFFSET", "TABLE", "GROUP")
	bFirst  = set("WHERE", "SELECT", "HAVING", "JOIN", "OFFSET", "TABLE", "GROUP")
	bCount  = set("WHERE", "HAVING", "JOIN", "LIMIT", "OFFSET", "TABLE", "GROUP")
	bUpdate = set("WHERE", "TABLE")
	bDelete = set("WHERE", "TABLE")
	bCreate = set("TABLE", "ONCONFLICT")
	bNone   = set()
)

func closeRows(rows *sql.Rows) {
	if rows != nil {
		rows.Close()
	}
}

func buildFins() []*Fin {
	var fins []*Fin
	add := func(f *Fin) { fins = append(fins, f) }

	// ---- queries
	add(&Fin{Label: `Find(&[]M)`, Kind: "query", Builds: bQuery,
		Run: func(db *gorm.DB, c *Ctx, v []Val) *gorm.DB { return db.Find(NewSlicePtr(c.Model)) }})
	add(&Fin{Label: `Find(&[]M, "{0} = ? AND {1} IN ?", v, w)`, Rep: true, Kind: "query", Builds: bQuery, Slots: []SlotSpec{anySlot(0), inSlot(1)},
		Run: func(db *gorm.DB, c *Ctx, v []Val) *gorm.DB {
			return db.Find(NewSlicePtr(c.Model), c.tpl("{0} = ? AND {1} IN ?"), v[0].V, v[1].V)
		}})
	add(&Fin{Label: `First(&M)`, Kind: "query", Builds: bFirst,
		Run: func(db *gorm.DB, c *Ctx, v []Val) *gorm.DB { return db.First(NewPtr(c.Model)) }})
	add(&Fin{Label: `First(&M, map{{0}:v})`, Rep: true, Kind: "query", Builds: bFirst, Slots: []SlotSpec{anySlot(0)},
		Run: func(db *gorm.DB, c *Ctx, v []Val) *gorm.DB {
			return db.First(NewPtr(c.Model), map[string]interface{}{c.Col(0): v[0].V})
		}})
	add(&Fin{Label: `Take(&M{ID:5})`, Kind: "query", Builds: set("WHERE", "SELECT", "HAVING", "JOIN", "ORDER", "OFFSET", "TABLE", "GROUP"),
		Run: func(db *gorm.DB, c *Ctx, v []Val) *gorm.DB { return db.Take(NewRec(c.Model, 5, nil)) }})
	add(&Fin{Label: `Model(&M{}).Count(&n)`, Rep: true, Kind: "query", Builds: bCount, May: set("ORDER"),
		Run: func(db *gorm.DB, c *Ctx, v []Val) *gorm.DB {
			var n int64
			return db.Model(NewPtr(c.Model)).Count(&n)
		}})
	add(&Fin{Label: `Model(&M{}).Pluck("{0}", &[]string)`, Kind: "query", Builds: bQuery,
		Run: func(db *gorm.DB, c *Ctx, v []Val) *gorm.DB {
			var out []string
			return db.Model(NewPtr(c.Model)).Pluck(c.Col(0), &out)
		}})
	add(&Fin{Label: `Model(&M{}).Rows()`, Kind: "query", Builds: bQuery, DryUnsupported: true,
		Run: func(db *gorm.DB, c *Ctx, v []Val) *gorm.DB {
			tx := db.Model(NewPtr(c.Model))
			// Rows() works on its own instance; make the instance observable
			tx = tx.Session(&gorm.Session{Initialized: true})
			rows, err := tx.Rows()
			closeRows(rows)
			if tx.Error == nil {
				tx.Error = err
			}
			return tx
		}})

	// ---- updates
	add(&Fin{Label: `Model(&M{}).Update("{0}", v)`, Rep: true, Kind: "update", Write: true, Builds: bUpdate, Slots: []SlotSpec{anySlot(0)},
		Run: func(db *gorm.DB, c *Ctx, v []Val) *gorm.DB { return db.Model(NewPtr(c.Model)).Update(c.Col(0), v[0].V) }})
	add(&Fin{Label: `Model(&M{ID:5}).UpdateColumn("{8}", v)`, Kind: "update", Write: true, Builds: bUpdate, Slots: []SlotSpec{anySlot(8)},
		Run: func(db *gorm.DB, c *Ctx, v []Val) *gorm.DB {
			return db.Model(NewRec(c.Model, 5, nil)).UpdateColumn(c.Col(8), v[0].V)
		}})
	add(&Fin{Label: `Model(&M{}).Updates(map{{0}:v,{8}:w})`, Kind: "update", Write: true, Builds: bUpdate, Slots: []SlotSpec{anySlot(0), anySlot(8)},
		Run: func(db *gorm.DB, c *Ctx, v []Val) *gorm.DB {
			return db.Model(NewPtr(c.Model)).Updates(map[string]interface{}{c.Col(0): v[0].V, c.Col(8): v[1].V})
		}})
	add(&Fin{Label: `Model(&M{}).Updates(M{typed fields})`, Rep: true, Kind: "update", Write: true, Builds: bUpdate, Slots: typedSlots(true, 0),
		Run: func(db *gorm.DB, c *Ctx, v []Val) *gorm.DB {
			return db.Model(NewPtr(c.Model)).Updates(NewRec(c.Model, 0, typedSet(c, v)))
		}})
	add(&Fin{Label: `Table(own).Where("id > ?",0).UpdateColumns(map{{0}: gorm.Expr("{0} || ?", v)})`, Kind: "update", Write: true, Builds: set("WHERE"), Slots: []SlotSpec{anySlot(0)},
		Run: func(db *gorm.DB, c *Ctx, v []Val) *gorm.DB {
			return db.Table(TableOf[c.Model]).Where("id > ?", 0).UpdateColumns(map[string]interface{}{c.Col(0): gorm.Expr(c.tpl("{0} || ?"), v[0].V)})
		}})

	// ---- deletes
	add(&Fin{Label: `Delete(&M{})`, Kind: "delete", Write: true, Builds: bDelete,
		Run: func(db *gorm.DB, c *Ctx, v []Val) *gorm.DB { return db.Delete(NewPtr(c.Model)) }})
	add(&Fin{Label: `Delete(&M{}, "{0} = ? OR {1} IN (?)", v, w)`, Rep: true, Kind: "delete", Write: true, Builds: bDelete, Slots: []SlotSpec{anySlot(0), anySlot(1)},
		Run: func(db *gorm.DB, c *Ctx, v []Val) *gorm.DB {
			return db.Delete(NewPtr(c.Model), c.tpl("{0} = ? OR {1} IN (?)"), v[0].V, v[1].V)
		}})
	add(&Fin{Label: `Delete(&M{ID:5})`, Kind: "delete", Write: true, Builds: bDelete,
		Run: func(db *gorm.DB, c *Ctx, v []Val) *gorm.DB { return db.Delete(NewRec(c.Model, 5, nil)) }})
	add(&Fin{Label: `Unscoped().Delete(&M{}, map{{0}:v})`, Kind: "delete", Write: true, Builds: bDelete, Slots: []SlotSpec{anySlot(0)},
		Run: func(db *gorm.DB, c *Ctx, v []Val) *gorm.DB {
			return db.Unscoped().Delete(NewPtr(c.Model), map[string]interface{}{c.Col(0): v[0].V})
		}})

	// ---- creates
	add(&Fin{Label: `Create(&M{typed fields})`, Rep: true, Kind: "create", Write: true, Builds: bCreate, Slots: typedSlots(false, 0),
		Run: func(db *gorm.DB, c *Ctx, v []Val) *gorm.DB { return db.Create(NewRec(c.Model, 0, typedSet(c, v))) }})
	add(&Fin{Label: `Create(&[]M{r0, r1})`, Kind: "create", Write: true, Builds: bCreate, Slots: append(typedSlots(false, 0), typedSlots(false, 1)...),
		Run: func(db *gorm.DB, c *Ctx, v []Val) *gorm.DB {
			return db.Create(NewRecs(c.Model, typedSet(c, v[:8]), typedSet(c, v[8:])))
		}})
	add(&Fin{Label: `Model(&M{}).Create(map{{0}:v,{8}:w})`, Rep: true, Kind: "create", Write: true, Builds: bCreate, Slots: []SlotSpec{anySlot(0), anySlot(8)},
		Run: func(db *gorm.DB, c *Ctx, v []Val) *gorm.DB {
			return db.Model(NewPtr(c.Model)).Create(map[string]interface{}{c.Col(0): v[0].V, c.Col(8): v[1].V})
		}})
	add(&Fin{Label: `Model(&M{}).Create([]map{{{0}:v,{8}:w},{{0}:x,{8}:y}})`, Kind: "create", Write: true, Builds: bCreate,
		Slots: []SlotSpec{anySlot(0), anySlot(8), {J: 0, Row: 1, Classes: AnyClasses}, {J: 8, Row: 1, Classes: AnyClasses}},
		Run: func(db *gorm.DB, c *Ctx, v []Val) *gorm.DB {
			return db.Model(NewPtr(c.Model)).Create([]map[string]interface{}{
				{c.Col(0): v[0].V, c.Col(8): v[1].V},
				{c.Col(0): v[2].V, c.Col(8): v[3].V},
			})
		}})
	add(&Fin{Label: `Clauses(OnConflict{UpdateAll}).Create(&M{ID:5, typed fields})`, Kind: "create", Write: true, Builds: set("TABLE"), Slots: typedSlots(false, 0),
		Run: func(db *gorm.DB, c *Ctx, v []Val) *gorm.DB {
			return db.Clauses(clause.OnConflict{UpdateAll: true}).Create(NewRec(c.Model, 5, typedSet(c, v)))
		}})
	add(&Fin{Label: `Clauses(OnConflict{Columns:[id], DoUpdates: Assignments(map{u49:v})}).Create(&M{ID:5, typed fields})`, Rep: true, Kind: "create", Write: true, Builds: set("TABLE"),
		Slots: append(typedSlots(false, 0), SlotSpec{Key: "u49", Classes: AnyClasses}),
		Run: func(db *gorm.DB, c *Ctx, v []Val) *gorm.DB {
			return db.Clauses(clause.OnConflict{Columns: []clause.Column{{Name: "id"}}, DoUpdates: clause.Assignments(map[string]interface{}{"u49": v[8].V})}).
				Create(NewRec(c.Model, 5, typedSet(c, v[:8])))
		}})

	// ---- raw SQL
	add(&Fin{Label: `Raw("SELECT * FROM own WHERE {0} = ? AND {1} IN ? AND {8} IN (?)", v, w, x).Find(&[]M)`, Rep: true, Kind: "raw", Builds: bNone, Slots: []SlotSpec{anySlot(0), inSlot(1), anySlot(8)},
		Run: func(db *gorm.DB, c *Ctx, v []Val) *gorm.DB {
			return db.Raw("SELECT * FROM "+TableOf[c.Model]+c.tpl(" WHERE {0} = ? AND {1} IN ? AND {8} IN (?)"), v[0].V, v[1].V, v[2].V).Find(NewSlicePtr(c.Model))
		}})
	add(&Fin{Label: `Raw("SELECT * FROM own WHERE {0} = @a OR ({1} = @b AND {8} <> @a2)", Named(b), map{a,a2}).Scan(&[]M)`, Kind: "raw", Builds: bNone, DryUnsupported: true, Slots: []SlotSpec{anySlot(0), anySlot(1), anySlot(8)},
		Run: func(db *gorm.DB, c *Ctx, v []Val) *gorm.DB {
			return db.Raw("SELECT * FROM "+TableOf[c.Model]+c.tpl(" WHERE {0} = @a OR ({1} = @b AND {8} <> @a2)"),
				sql.Named("b", v[1].V), map[string]interface{}{"a": v[0].V, "a2": v[2].V}).Scan(NewSlicePtr(c.Model))
		}})
	add(&Fin{Label: `Exec("UPDATE own SET {0} = ? WHERE {1} IN (?) OR {8} = ?", v, w, x)`, Kind: "exec", Write: true, Builds: bNone, Slots: []SlotSpec{anySlot(0), anySlot(1), anySlot(8)},
		Run: func(db *gorm.DB, c *Ctx, v []Val) *gorm.DB {
			return db.Exec("UPDATE "+TableOf[c.Model]+c.tpl(" SET {0} = ? WHERE {1} IN (?) OR {8} = ?"), v[0].V, v[1].V, v[2].V)
		}})
	add(&Fin{Label: `Exec("DELETE FROM own WHERE {0} = @a AND {1} IN @b", map{a,b})`, Rep: true, Kind: "exec", Write: true, Builds: bNone, Slots: []SlotSpec{anySlot(0), inSlot(1)},
		Run: func(db *gorm.DB, c *Ctx, v []Val) *gorm.DB {
			return db.Exec("DELETE FROM "+TableOf[c.Model]+c.tpl(" WHERE {0} = @a AND {1} IN @b"), map[string]interface{}{"a": v[0].V, "b": v[1].V})
		}})
	return fins
}

// Fins is the finisher alphabet.
var Fins = buildFins()

var finByLabel = func() map[string]*Fin {
	m := map[string]*Fin{}
	for _, f := range Fins {
		if _, dup := m[f.Label]; dup {
			panic("duplicate finisher label " + f.Label)
		}
		m[f.Label] = f
	}
	return m
}()
