package proggram

import (
	"database/sql"
	"errors"
	"fmt"

	"gorm.io/gorm"
	"gorm.io/gorm/clause"
)

// Fin is a finisher. Result bundles what the caller may need to clean up.
type Fin struct {
	Label string
	Kind  string // query update delete create raw exec
	Slots []SlotSpec
	Run   func(db *gorm.DB, c *Ctx, v []Val) *gorm.DB
	// Builds: clause kinds of Op.Clause that this finisher renders.
	Builds map[string]bool
	// May: clause kinds that are rendered only under further conditions
	// (Count keeps ORDER BY only when a GROUP BY exists).
	May   map[string]bool
	Write bool
	// ReturnsError: the finisher itself cannot work in DryRun mode (Rows/Scan)
	DryUnsupported bool
	// Rep: member of the reduced finisher set (one per code path)
	Rep bool
	// Multi: the finisher issues several main statements / exposes no single
	// statement on the handle it returns (batches, fallbacks, transaction
	// blocks). C01 leaves these out; C19 checks only "DryRun sends nothing".
	Multi bool
	// ExplicitTx: the program itself opens a transaction (Transaction / Begin),
	// so BEGIN/COMMIT reach the driver in every mode by request.
	ExplicitTx bool
	// NoSchema: the statement has no model (Table("t") only; destination
	// int64 / []string / map / rows)
	NoSchema bool
	// WriteStep ("INSERT" / "UPDATE"): for a Multi finisher whose returned
	// handle exposes its main WRITE statement in DryRun (the lookup before it
	// finds nothing): C19 compares that statement with the first statement of
	// the real run that starts with this keyword.
	WriteStep string
	// NoScanDest: the destination cannot receive RETURNING rows in a real run
	// ([]map destination, the unaddressable sub-slice of a batch, a map update
	// without model): gorm's Scan panics there. Combined with an explicit
	// RETURNING call this is a known gorm limitation outside C01/C19.
	NoScanDest bool
}

func set(names ...string) map[string]bool {
	m := map[string]bool{}
	for _, n := range names {
		m[n] = true
	}
	return m
}

var (
	bQuery  = set("WHERE", "SELECT", "HAVING", "JOIN", "ORDER", "LIMIT", "OFFSET", "TABLE", "GROUP")
	bFirst  = set("WHERE", "SELECT", "HAVING", "JOIN", "OFFSET", "TABLE", "GROUP")
	bCount  = set("WHERE", "HAVING", "JOIN", "LIMIT", "OFFSET", "TABLE", "GROUP")
	bUpdate = set("WHERE", "TABLE")
	bDelete = set("WHERE", "TABLE")
	bCreate = set("TABLE", "ONCONFLICT")
	bNone   = set()
)

// ErrLookupFound: a lookup-then-write finisher found a row and skipped its write step.
var ErrLookupFound = errors.New("proggram: lookup found a row, write step skipped")

var errStopBatches = errors.New("proggram: stop after 4 batches")

func closeRows(rows *sql.Rows) {
	if rows != nil {
		rows.Close()
	}
}

func buildFins() []*Fin {
	var fins []*Fin
	add := func(f *Fin) { fins = append(fins, f) }

	// ---- queries
	add(&Fin{Label: `Find(&[]M)`, Kind: "query", Builds: bQuery,
		Run: func(db *gorm.DB, c *Ctx, v []Val) *gorm.DB { return db.Find(NewSlicePtr(c.Model)) }})
	add(&Fin{Label: `Find(&[]M, "{0} = ? AND {1} IN ?", v, w)`, Rep: true, Kind: "query", Builds: bQuery, Slots: []SlotSpec{anySlot(0), inSlot(1)},
		Run: func(db *gorm.DB, c *Ctx, v []Val) *gorm.DB {
			return db.Find(NewSlicePtr(c.Model), c.tpl("{0} = ? AND {1} IN ?"), v[0].V, v[1].V)
		}})
	add(&Fin{Label: `First(&M)`, Kind: "query", Builds: bFirst,
		Run: func(db *gorm.DB, c *Ctx, v []Val) *gorm.DB { return db.First(NewPtr(c.Model)) }})
	add(&Fin{Label: `First(&M, map{{0}:v})`, Rep: true, Kind: "query", Builds: bFirst, Slots: []SlotSpec{listSlot(0)},
		Run: func(db *gorm.DB, c *Ctx, v []Val) *gorm.DB {
			return db.First(NewPtr(c.Model), map[string]interface{}{c.Col(0): v[0].V})
		}})
	add(&Fin{Label: `Take(&M{ID:5})`, Kind: "query", Builds: set("WHERE", "SELECT", "HAVING", "JOIN", "ORDER", "OFFSET", "TABLE", "GROUP"),
		Run: func(db *gorm.DB, c *Ctx, v []Val) *gorm.DB { return db.Take(NewRec(c.Model, 5, nil)) }})
	add(&Fin{Label: `Model(&M{}).Count(&n)`, Rep: true, Kind: "query", Builds: bCount, May: set("ORDER"),
		Run: func(db *gorm.DB, c *Ctx, v []Val) *gorm.DB {
			var n int64
			return db.Model(NewPtr(c.Model)).Count(&n)
		}})
	add(&Fin{Label: `Model(&M{}).Pluck("{0}", &[]string)`, Kind: "query", Builds: bQuery,
		Run: func(db *gorm.DB, c *Ctx, v []Val) *gorm.DB {
			var out []string
			return db.Model(NewPtr(c.Model)).Pluck(c.Col(0), &out)
		}})
	add(&Fin{Label: `Model(&M{}).Rows()`, Kind: "query", Builds: bQuery, DryUnsupported: true,
		Run: func(db *gorm.DB, c *Ctx, v []Val) *gorm.DB {
			tx := db.Model(NewPtr(c.Model))
			// Rows() works on its own instance; make the instance observable
			tx = tx.Session(&gorm.Session{Initialized: true})
			rows, err := tx.Rows()
			closeRows(rows)
			if tx.Error == nil {
				tx.Error = err
			}
			return tx
		}})

	// ---- schema-less reads: Table(own) without Model
	bNoSchema := set("WHERE", "SELECT", "HAVING", "JOIN", "ORDER", "LIMIT", "OFFSET", "GROUP")
	add(&Fin{Label: `Table(own).Find(&[]map[string]interface{})`, Rep: true, Kind: "query", NoSchema: true, Builds: bNoSchema,
		Run: func(db *gorm.DB, c *Ctx, v []Val) *gorm.DB {
			var out []map[string]interface{}
			return db.Table(TableOf[c.Model]).Find(&out)
		}})
	add(&Fin{Label: `Table(own).Count(&n)`, Kind: "query", NoSchema: true, Builds: set("WHERE", "HAVING", "JOIN", "LIMIT", "OFFSET", "GROUP"), May: set("ORDER"),
		Run: func(db *gorm.DB, c *Ctx, v []Val) *gorm.DB {
			var n int64
			return db.Table(TableOf[c.Model]).Count(&n)
		}})
	add(&Fin{Label: `Table(own).Pluck("{0}", &[]string)`, Kind: "query", NoSchema: true, Builds: bNoSchema,
		Run: func(db *gorm.DB, c *Ctx, v []Val) *gorm.DB {
			var out []string
			return db.Table(TableOf[c.Model]).Pluck(c.Col(0), &out)
		}})
	add(&Fin{Label: `Table(own).Take(&map[string]interface{})`, Kind: "query", NoSchema: true, Builds: set("WHERE", "SELECT", "HAVING", "JOIN", "ORDER", "OFFSET", "GROUP"),
		Run: func(db *gorm.DB, c *Ctx, v []Val) *gorm.DB {
			out := map[string]interface{}{}
			return db.Table(TableOf[c.Model]).Take(&out)
		}})
	add(&Fin{Label: `Table(own).Rows()`, Kind: "query", NoSchema: true, Builds: bNoSchema, DryUnsupported: true,
		Run: func(db *gorm.DB, c *Ctx, v []Val) *gorm.DB {
			tx := db.Table(TableOf[c.Model]).Session(&gorm.Session{Initialized: true})
			rows, err := tx.Rows()
			closeRows(rows)
			if tx.Error == nil {
				tx.Error = err
			}
			return tx
		}})

	// ---- updates
	add(&Fin{Label: `Model(&M{}).Update("{0}", v)`, Rep: true, Kind: "update", Write: true, Builds: bUpdate, Slots: []SlotSpec{anySlot(0)},
		Run: func(db *gorm.DB, c *Ctx, v []Val) *gorm.DB { return db.Model(NewPtr(c.Model)).Update(c.Col(0), v[0].V) }})
	add(&Fin{Label: `Model(&M{ID:5}).UpdateColumn("{8}", v)`, Kind: "update", Write: true, Builds: bUpdate, Slots: []SlotSpec{anySlot(8)},
		Run: func(db *gorm.DB, c *Ctx, v []Val) *gorm.DB {
			return db.Model(NewRec(c.Model, 5, nil)).UpdateColumn(c.Col(8), v[0].V)
		}})
	add(&Fin{Label: `Model(&M{}).Updates(map{{0}:v,{8}:w})`, Kind: "update", Write: true, Builds: bUpdate, Slots: []SlotSpec{anySlot(0), anySlot(8)},
		Run: func(db *gorm.DB, c *Ctx, v []Val) *gorm.DB {
			return db.Model(NewPtr(c.Model)).Updates(map[string]interface{}{c.Col(0): v[0].V, c.Col(8): v[1].V})
		}})
	add(&Fin{Label: `Model(&M{}).Updates(M{typed fields})`, Rep: true, Kind: "update", Write: true, Builds: bUpdate, Slots: typedSlots(true, 0),
		Run: func(db *gorm.DB, c *Ctx, v []Val) *gorm.DB {
			return db.Model(NewPtr(c.Model)).Updates(NewRec(c.Model, 0, typedSet(c, v)))
		}})
	add(&Fin{Label: `Table(own).Where("id > ?",0).UpdateColumns(map{{0}: gorm.Expr("{0} || ?", v)})`, NoScanDest: true, Kind: "update", Write: true, Builds: set("WHERE"), Slots: []SlotSpec{anySlot(0)},
		Run: func(db *gorm.DB, c *Ctx, v []Val) *gorm.DB {
			return db.Table(TableOf[c.Model]).Where("id > ?", 0).UpdateColumns(map[string]interface{}{c.Col(0): gorm.Expr(c.tpl("{0} || ?"), v[0].V)})
		}})

	// ---- deletes
	add(&Fin{Label: `Delete(&M{})`, Kind: "delete", Write: true, Builds: bDelete,
		Run: func(db *gorm.DB, c *Ctx, v []Val) *gorm.DB { return db.Delete(NewPtr(c.Model)) }})
	add(&Fin{Label: `Delete(&M{}, "{0} = ? OR {1} IN (?)", v, w)`, Rep: true, Kind: "delete", Write: true, Builds: bDelete, Slots: []SlotSpec{anySlot(0), listSlot(1)},
		Run: func(db *gorm.DB, c *Ctx, v []Val) *gorm.DB {
			return db.Delete(NewPtr(c.Model), c.tpl("{0} = ? OR {1} IN (?)"), v[0].V, v[1].V)
		}})
	add(&Fin{Label: `Delete(&M{ID:5})`, Kind: "delete", Write: true, Builds: bDelete,
		Run: func(db *gorm.DB, c *Ctx, v []Val) *gorm.DB { return db.Delete(NewRec(c.Model, 5, nil)) }})
	add(&Fin{Label: `Unscoped().Delete(&M{}, map{{0}:v})`, Kind: "delete", Write: true, Builds: bDelete, Slots: []SlotSpec{listSlot(0)},
		Run: func(db *gorm.DB, c *Ctx, v []Val) *gorm.DB {
			return db.Unscoped().Delete(NewPtr(c.Model), map[string]interface{}{c.Col(0): v[0].V})
		}})

	// ---- creates
	add(&Fin{Label: `Create(&M{typed fields})`, Rep: true, Kind: "create", Write: true, Builds: bCreate, Slots: typedSlots(false, 0),
		Run: func(db *gorm.DB, c *Ctx, v []Val) *gorm.DB { return db.Create(NewRec(c.Model, 0, typedSet(c, v))) }})
	add(&Fin{Label: `Create(&[]M{r0, r1})`, Kind: "create", Write: true, Builds: bCreate, Slots: append(typedSlots(false, 0), typedSlots(false, 1)...),
		Run: func(db *gorm.DB, c *Ctx, v []Val) *gorm.DB {
			return db.Create(NewRecs(c.Model, typedSet(c, v[:8]), typedSet(c, v[8:])))
		}})
	add(&Fin{Label: `Model(&M{}).Create(map{{0}:v,{8}:w})`, Rep: true, Kind: "create", Write: true, Builds: bCreate, Slots: []SlotSpec{anySlot(0), anySlot(8)},
		Run: func(db *gorm.DB, c *Ctx, v []Val) *gorm.DB {
			return db.Model(NewPtr(c.Model)).Create(map[string]interface{}{c.Col(0): v[0].V, c.Col(8): v[1].V})
		}})
	add(&Fin{Label: `Model(&M{}).Create([]map{{{0}:v,{8}:w},{{0}:x,{8}:y}})`, NoScanDest: true, Kind: "create", Write: true, Builds: bCreate,
		Slots: []SlotSpec{anySlot(0), anySlot(8), {J: 0, Row: 1, Classes: AnyClasses}, {J: 8, Row: 1, Classes: AnyClasses}},
		Run: func(db *gorm.DB, c *Ctx, v []Val) *gorm.DB {
			return db.Model(NewPtr(c.Model)).Create([]map[string]interface{}{
				{c.Col(0): v[0].V, c.Col(8): v[1].V},
				{c.Col(0): v[2].V, c.Col(8): v[3].V},
			})
		}})
	add(&Fin{Label: `Clauses(OnConflict{UpdateAll}).Create(&M{ID:5, typed fields})`, Kind: "create", Write: true, Builds: set("TABLE"), Slots: typedSlots(false, 0),
		Run: func(db *gorm.DB, c *Ctx, v []Val) *gorm.DB {
			return db.Clauses(clause.OnConflict{UpdateAll: true}).Create(NewRec(c.Model, 5, typedSet(c, v)))
		}})
	add(&Fin{Label: `Clauses(OnConflict{Columns:[id], DoUpdates: Assignments(map{u49:v})}).Create(&M{ID:5, typed fields})`, Rep: true, Kind: "create", Write: true, Builds: set("TABLE"),
		Slots: append(typedSlots(false, 0), SlotSpec{Key: "u49", Classes: AnyClasses}),
		Run: func(db *gorm.DB, c *Ctx, v []Val) *gorm.DB {
			return db.Clauses(clause.OnConflict{Columns: []clause.Column{{Name: "id"}}, DoUpdates: clause.Assignments(map[string]interface{}{"u49": v[8].V})}).
				Create(NewRec(c.Model, 5, typedSet(c, v[:8])))
		}})

	// ---- raw SQL
	add(&Fin{Label: `Raw("SELECT * FROM own WHERE {0} = ? AND {1} IN ? AND {8} IN (?)", v, w, x).Find(&[]M)`, Rep: true, Kind: "raw", Builds: bNone, Slots: []SlotSpec{anySlot(0), inSlot(1), listSlot(8)},
		Run: func(db *gorm.DB, c *Ctx, v []Val) *gorm.DB {
			return db.Raw("SELECT * FROM "+TableOf[c.Model]+c.tpl(" WHERE {0} = ? AND {1} IN ? AND {8} IN (?)"), v[0].V, v[1].V, v[2].V).Find(NewSlicePtr(c.Model))
		}})
	add(&Fin{Label: `Raw("SELECT * FROM own WHERE {0} = @a OR ({1} = @b AND {8} <> @a2)", Named(b), map{a,a2}).Scan(&[]M)`, Kind: "raw", Builds: bNone, DryUnsupported: true, Slots: []SlotSpec{anySlot(0), anySlot(1), anySlot(8)},
		Run: func(db *gorm.DB, c *Ctx, v []Val) *gorm.DB {
			return db.Raw("SELECT * FROM "+TableOf[c.Model]+c.tpl(" WHERE {0} = @a OR ({1} = @b AND {8} <> @a2)"),
				sql.Named("b", v[1].V), map[string]interface{}{"a": v[0].V, "a2": v[2].V}).Scan(NewSlicePtr(c.Model))
		}})
	add(&Fin{Label: `Exec("UPDATE own SET {0} = ? WHERE {1} IN (?) OR {8} = ?", v, w, x)`, Kind: "exec", Write: true, Builds: bNone, Slots: []SlotSpec{anySlot(0), listSlot(1), anySlot(8)},
		Run: func(db *gorm.DB, c *Ctx, v []Val) *gorm.DB {
			return db.Exec("UPDATE "+TableOf[c.Model]+c.tpl(" SET {0} = ? WHERE {1} IN (?) OR {8} = ?"), v[0].V, v[1].V, v[2].V)
		}})
	add(&Fin{Label: `Exec("DELETE FROM own WHERE {0} = @a AND {1} IN @b", map{a,b})`, Rep: true, Kind: "exec", Write: true, Builds: bNone, Slots: []SlotSpec{anySlot(0), inSlot(1)},
		Run: func(db *gorm.DB, c *Ctx, v []Val) *gorm.DB {
			return db.Exec("DELETE FROM "+TableOf[c.Model]+c.tpl(" WHERE {0} = @a AND {1} IN @b"), map[string]interface{}{"a": v[0].V, "b": v[1].V})
		}})
	// ---- further executor branches and finishers with their own transaction /
	// batching / fallback logic
	fewSlots := func(rows int) []SlotSpec {
		var out []SlotSpec
		for r := 0; r < rows; r++ {
			out = append(out, SlotSpec{J: 0, Row: r, Classes: []Class{CStr, CQuote}}, SlotSpec{J: 1, Row: r, Classes: []Class{CInt}})
		}
		return out
	}
	fewRecs := func(c *Ctx, v []Val) interface{} {
		var sets []map[int]interface{}
		for i := 0; i+1 < len(v); i += 2 {
			sets = append(sets, map[int]interface{}{c.N(0): v[i].V, c.N(1): v[i+1].V})
		}
		return NewRecs(c.Model, sets...)
	}
	mapClasses := []Class{CStr, CQMark, CNilPtr, CExpr}
	mapSlots := func(rows int) []SlotSpec {
		var out []SlotSpec
		for r := 0; r < rows; r++ {
			out = append(out, SlotSpec{J: 0, Row: r, Classes: mapClasses}, SlotSpec{J: 8, Row: r, Classes: mapClasses})
		}
		return out
	}
	mapRows := func(c *Ctx, v []Val) []map[string]interface{} {
		var out []map[string]interface{}
		for i := 0; i+1 < len(v); i += 2 {
			out = append(out, map[string]interface{}{c.Col(0): v[i].V, c.Col(8): v[i+1].V})
		}
		return out
	}

	add(&Fin{Label: `Table(own).Create(map{{0}:v,{8}:w})`, Kind: "create", Write: true, Builds: set("ONCONFLICT"), Slots: []SlotSpec{anySlot(0), anySlot(8)},
		Run: func(db *gorm.DB, c *Ctx, v []Val) *gorm.DB {
			return db.Table(TableOf[c.Model]).Create(map[string]interface{}{c.Col(0): v[0].V, c.Col(8): v[1].V})
		}})
	add(&Fin{Label: `Model(&M{ID:5}).UpdateColumns(M{typed fields})`, Kind: "update", Write: true, Builds: bUpdate, Slots: typedSlots(true, 0),
		Run: func(db *gorm.DB, c *Ctx, v []Val) *gorm.DB {
			return db.Model(NewRec(c.Model, 5, nil)).UpdateColumns(NewRec(c.Model, 0, typedSet(c, v)))
		}})
	add(&Fin{Label: `Save(&M{ID:5, typed fields})`, Kind: "update", Write: true, Builds: bUpdate, Slots: typedSlots(false, 0),
		Run: func(db *gorm.DB, c *Ctx, v []Val) *gorm.DB { return db.Save(NewRec(c.Model, 5, typedSet(c, v))) }})
	add(&Fin{Label: `Save(&M{ID:77 (absent), typed fields})`, Rep: true, Kind: "update", Write: true, Builds: bUpdate, Slots: typedSlots(false, 0),
		Run: func(db *gorm.DB, c *Ctx, v []Val) *gorm.DB { return db.Save(NewRec(c.Model, 77, typedSet(c, v))) }})
	add(&Fin{Label: `Save(&M{typed fields})`, Kind: "create", Write: true, Builds: bCreate, Slots: typedSlots(false, 0),
		Run: func(db *gorm.DB, c *Ctx, v []Val) *gorm.DB { return db.Save(NewRec(c.Model, 0, typedSet(c, v))) }})
	add(&Fin{Label: `Save(&[]M{r0, r1})`, Kind: "create", Write: true, Builds: bCreate, Slots: fewSlots(2),
		Run: func(db *gorm.DB, c *Ctx, v []Val) *gorm.DB { return db.Save(fewRecs(c, v)) }})
	add(&Fin{Label: `FirstOrInit(&M{}, map{{0}:v})`, Kind: "query", Builds: bFirst, Slots: []SlotSpec{listSlot(0)},
		Run: func(db *gorm.DB, c *Ctx, v []Val) *gorm.DB {
			return db.FirstOrInit(NewPtr(c.Model), map[string]interface{}{c.Col(0): v[0].V})
		}})
	add(&Fin{Label: `Model(&M{}).Row()`, Kind: "query", Builds: bQuery, DryUnsupported: true,
		Run: func(db *gorm.DB, c *Ctx, v []Val) *gorm.DB {
			tx := db.Model(NewPtr(c.Model)).Session(&gorm.Session{Initialized: true})
			if row := tx.Row(); row != nil {
				var x interface{}
				row.Scan(&x) // releases the connection whatever the column count
			}
			return tx
		}})
	add(&Fin{Label: `Model(&M{}).Scan(&[]M)`, Kind: "query", Builds: bQuery, DryUnsupported: true,
		Run: func(db *gorm.DB, c *Ctx, v []Val) *gorm.DB {
			return db.Model(NewPtr(c.Model)).Scan(NewSlicePtr(c.Model))
		}})

	add(&Fin{Label: `FirstOrCreate(&M{}, map{{0}:v})`, Kind: "create", Write: true, Multi: true, WriteStep: "INSERT", Builds: bNone, Slots: []SlotSpec{{J: 0, Classes: mapClasses}},
		Run: func(db *gorm.DB, c *Ctx, v []Val) *gorm.DB {
			return db.FirstOrCreate(NewPtr(c.Model), map[string]interface{}{c.Col(0): v[0].V})
		}})
	add(&Fin{Label: `Assign(map{{8}:w}).FirstOrCreate(&M{}, map{id:5})`, Kind: "update", Write: true, Multi: true, Builds: bNone, Slots: []SlotSpec{{J: 8, Classes: mapClasses}},
		Run: func(db *gorm.DB, c *Ctx, v []Val) *gorm.DB {
			return db.Assign(map[string]interface{}{c.Col(8): v[0].V}).FirstOrCreate(NewPtr(c.Model), map[string]interface{}{"id": 5})
		}})
	// lookups into a destination that already carries values, followed by a write of it
	preSlots := []SlotSpec{{J: 0, Classes: []Class{CStr, CQuote}}, {J: 8, Classes: []Class{CStr, CQMark}}, {J: 1, Classes: []Class{CInt}}}
	preRec := func(c *Ctx, v []Val) interface{} {
		return NewRec(c.Model, 0, map[int]interface{}{c.N(8): v[1].V, c.N(1): v[2].V})
	}
	add(&Fin{Label: `FirstOrCreate(&M{{8}:w,{1}:n (pre-filled)}, map{{0}:v})`, Rep: true, Kind: "create", Write: true, Multi: true, WriteStep: "INSERT", Builds: bNone, Slots: preSlots,
		Run: func(db *gorm.DB, c *Ctx, v []Val) *gorm.DB {
			return db.FirstOrCreate(preRec(c, v), map[string]interface{}{c.Col(0): v[0].V})
		}})
	type lookup struct {
		name string
		call func(db *gorm.DB, dest interface{}, cond interface{}) *gorm.DB
	}
	type write struct {
		name string
		call func(db *gorm.DB, dest interface{}) *gorm.DB
	}
	save := write{"Save", func(db *gorm.DB, dest interface{}) *gorm.DB { return db.Save(dest) }}
	create := write{"Create", func(db *gorm.DB, dest interface{}) *gorm.DB { return db.Create(dest) }}
	for _, lw := range []struct {
		l lookup
		w write
	}{
		{lookup{"First", func(db *gorm.DB, d, cnd interface{}) *gorm.DB { return db.First(d, cnd) }}, save},
		{lookup{"Take", func(db *gorm.DB, d, cnd interface{}) *gorm.DB { return db.Take(d, cnd) }}, create},
		{lookup{"Find", func(db *gorm.DB, d, cnd interface{}) *gorm.DB { return db.Find(d, cnd) }}, create},
	} {
		lw := lw
		add(&Fin{Label: lw.l.name + `(&dest{{8}:w,{1}:n (pre-filled)}, map{{0}:v}) finds nothing; ` + lw.w.name + `(&dest)`, Kind: "create", Write: true, Multi: true, WriteStep: "INSERT", Builds: bNone, Slots: preSlots,
			Run: func(db *gorm.DB, c *Ctx, v []Val) *gorm.DB {
				dest := preRec(c, v)
				look := lw.l.call(db, dest, map[string]interface{}{c.Col(0): v[0].V})
				if look.RowsAffected > 0 {
					// the chain matched a seeded row: the write step would depend on
					// loaded data, which DryRun cannot know — not part of the program
					look.AddError(ErrLookupFound)
					return look
				}
				return lw.w.call(c.Base, dest)
			}})
	}
	add(&Fin{Label: `FindInBatches(&[]M, 2, fc)`, Kind: "query", Multi: true, Builds: bNone,
		Run: func(db *gorm.DB, c *Ctx, v []Val) *gorm.DB {
			// the callback stops after 4 batches: with some chains (an Or unit
			// next to the key cursor) FindInBatches would never terminate
			return db.FindInBatches(NewSlicePtr(c.Model), 2, func(tx *gorm.DB, batch int) error {
				if batch >= 4 {
					return errStopBatches
				}
				return nil
			})
		}})
	for _, n := range []int{2, 3, 5} {
		n := n
		add(&Fin{Label: fmt.Sprintf(`CreateInBatches(&[]M{r0, r1, r2}, %d)`, n), Rep: n == 2, NoScanDest: true, Kind: "create", Write: true, Multi: true, Builds: bNone, Slots: fewSlots(3),
			Run: func(db *gorm.DB, c *Ctx, v []Val) *gorm.DB { return db.CreateInBatches(fewRecs(c, v), n) }})
	}
	add(&Fin{Label: `Model(&M{}).CreateInBatches([]map{m0, m1, m2}, 2)`, NoScanDest: true, Kind: "create", Write: true, Multi: true, Builds: bNone, Slots: mapSlots(3),
		Run: func(db *gorm.DB, c *Ctx, v []Val) *gorm.DB {
			return db.Model(NewPtr(c.Model)).CreateInBatches(mapRows(c, v), 2)
		}})
	add(&Fin{Label: `Session(&Session{CreateBatchSize:2}).Create(&[]M{r0, r1, r2})`, NoScanDest: true, Kind: "create", Write: true, Multi: true, Builds: bNone, Slots: fewSlots(3),
		Run: func(db *gorm.DB, c *Ctx, v []Val) *gorm.DB {
			return db.Session(&gorm.Session{CreateBatchSize: 2}).Create(fewRecs(c, v))
		}})
	add(&Fin{Label: `Session(&Session{CreateBatchSize:1}).Model(&M{}).Create([]map{m0, m1})`, NoScanDest: true, Kind: "create", Write: true, Multi: true, Builds: bNone, Slots: mapSlots(2),
		Run: func(db *gorm.DB, c *Ctx, v []Val) *gorm.DB {
			return db.Session(&gorm.Session{CreateBatchSize: 1}).Model(NewPtr(c.Model)).Create(mapRows(c, v))
		}})
	add(&Fin{Label: `Transaction(func(tx){ tx.Create(&M{r0}); tx.Model(&M{ID:5}).Update("{8}", v); tx.Find(&[]M) })`, Rep: true, Kind: "update", Write: true, Multi: true, ExplicitTx: true, Builds: bNone,
		Slots: append(fewSlots(1), SlotSpec{J: 8, Classes: mapClasses}),
		Run: func(db *gorm.DB, c *Ctx, v []Val) *gorm.DB {
			res := db.Session(&gorm.Session{})
			res.AddError(db.Transaction(func(tx *gorm.DB) error {
				if err := tx.Create(NewRec(c.Model, 0, map[int]interface{}{c.N(0): v[0].V, c.N(1): v[1].V})).Error; err != nil {
					return err
				}
				if err := tx.Model(NewRec(c.Model, 5, nil)).Update(c.Col(8), v[2].V).Error; err != nil {
					return err
				}
				return tx.Find(NewSlicePtr(c.Model)).Error
			}))
			return res
		}})
	add(&Fin{Label: `tx := Begin(); tx.Delete(&M{ID:5}); tx.Create(&M{r0}); tx.Commit()`, Kind: "create", Write: true, Multi: true, ExplicitTx: true, Builds: bNone, Slots: fewSlots(1),
		Run: func(db *gorm.DB, c *Ctx, v []Val) *gorm.DB {
			tx := db.Begin()
			if tx.Error != nil {
				return tx
			}
			tx.Delete(NewRec(c.Model, 5, nil))
			tx.Create(NewRec(c.Model, 0, map[int]interface{}{c.N(0): v[0].V, c.N(1): v[1].V}))
			return tx.Commit()
		}})
	return fins
}

// Fins is the finisher alphabet.
var Fins = buildFins()

var finByLabel = func() map[string]*Fin {
	m := map[string]*Fin{}
	for _, f := range Fins {
		if _, dup := m[f.Label]; dup {
			panic("duplicate finisher label " + f.Label)
		}
		m[f.Label] = f
	}
	return m
}()
