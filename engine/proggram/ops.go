package proggram

import (
	"database/sql"
	"strings"

	"gorm.io/gorm"
	"gorm.io/gorm/clause"
)

// SlotSpec describes one argument position of a call.
type SlotSpec struct {
	J       int     // column index inside the position's group: column c<p><J>
	Key     string  // explicit governing key instead of a column ("LIMIT", "OFFSET")
	Row     int     // VALUES row (multi-row creates): key is c<p><J>#<Row> for Row>0
	Classes []Class // admissible classes; Classes[0] is the default
	// SkipsZero: the call documents that zero values are skipped (struct
	// conditions, Updates(struct)), so a ZeroLike value need not appear.
	SkipsZero bool
	// ListCtx: the call expands a slice argument at this position into a list
	// ("(?)" after a parenthesis, WithoutParentheses, a map condition): only
	// there may a byte-kind value be bound one value per byte.
	ListCtx bool
}

// Ctx is what a call sees when it is applied.
type Ctx struct {
	P     int      // position 1..3 (finisher: 4)
	Model int      // ModelT / ModelS
	Base  *gorm.DB // fresh handle (NewDB) for sub-queries
}

func (c *Ctx) Col(j int) string { return string([]byte{'c', byte('0' + c.P), byte('0' + j)}) }
func (c *Ctx) N(j int) int      { return c.P*10 + j }

// tpl replaces {j} by the column name c<p><j>.
func (c *Ctx) tpl(s string) string {
	if strings.IndexByte(s, '{') < 0 {
		return s
	}
	var sb strings.Builder
	sb.Grow(len(s) + 8)
	for i := 0; i < len(s); i++ {
		if s[i] == '{' && i+2 < len(s) && s[i+2] == '}' && s[i+1] >= '0' && s[i+1] <= '9' {
			sb.WriteByte('c')
			sb.WriteByte(byte('0' + c.P))
			sb.WriteByte(s[i+1])
			i += 2
			continue
		}
		sb.WriteByte(s[i])
	}
	return sb.String()
}

// Op is one clause call.
type Op struct {
	Label  string // {j} stands for column c<p><j>
	Clause string // WHERE SELECT HAVING JOIN ORDER LIMIT OFFSET TABLE GROUP ONCONFLICT
	Slots  []SlotSpec
	Apply  func(db *gorm.DB, c *Ctx, v []Val) *gorm.DB
	Core   bool // member of the reduced alphabet (3-call programs)
	// UniqueKey: at most one call with this key per program (a repeated
	// relation join is ignored by gorm by design; two bare "?" templates of the
	// same kind would be governed by the same keyword).
	UniqueKey string
	// BareJoin: Joins("?", v) — only without another join in the program (a
	// preceding join's column would be adjacent to its placeholder).
	BareJoin bool
	// NeedsSchema: the call only works with a model (relation joins); with a
	// schema-less finisher gorm treats it as a raw join without arguments.
	NeedsSchema bool
	// Bare: shortest-spelling template call ("?" / "(?)")
	Bare   bool
	NoExec bool // not used on the real SQLite dialector (its LIMIT builder inlines)
}

func anySlot(j int) SlotSpec { return SlotSpec{J: j, Classes: AnyClasses} }

// listSlot: anySlot at a position where gorm expands slices into a list.
func listSlot(j int) SlotSpec { return SlotSpec{J: j, Classes: AnyClasses, ListCtx: true} }

// inSlot: a slot used as "col IN ?": the default class is a two-element slice
// (so that the default program is valid SQL); all other classes follow.
func inSlot(j int) SlotSpec {
	cl := []Class{CSlice2}
	for _, c := range AnyClasses {
		if c != CSlice2 {
			cl = append(cl, c)
		}
	}
	return SlotSpec{J: j, Classes: cl}
}

func typedSlots(skipsZero bool, row int) []SlotSpec {
	return []SlotSpec{
		{J: 0, Row: row, Classes: StringClasses, SkipsZero: skipsZero},
		{J: 1, Row: row, Classes: []Class{CInt}, SkipsZero: skipsZero},
		{J: 2, Row: row, Classes: []Class{CPtr, CNilPtr}, SkipsZero: skipsZero},
		{J: 3, Row: row, Classes: []Class{CNullValid, CNullInvalid}, SkipsZero: skipsZero},
		{J: 4, Row: row, Classes: []Class{CBytes}, SkipsZero: skipsZero},
		{J: 5, Row: row, Classes: []Class{CTime}, SkipsZero: skipsZero},
		{J: 6, Row: row, Classes: []Class{CDValuer}, SkipsZero: skipsZero},
		{J: 7, Row: row, Classes: []Class{CGValuer}, SkipsZero: skipsZero},
	}
}

// typedSet converts the values of typedSlots into a field map for NewRec.
func typedSet(c *Ctx, v []Val) map[int]interface{} {
	m := map[int]interface{}{}
	for j := 0; j < 8 && j < len(v); j++ {
		m[c.N(j)] = v[j].V
	}
	return m
}

type named struct {
	A interface{}
	B interface{}
}

type condForm struct {
	label string
	slots []SlotSpec
	args  func(c *Ctx, v []Val) (interface{}, []interface{})
	core  bool
}

func tupleArg(v []Val) interface{} {
	a, b := v[0].Alts[0], v[1].Alts[0]
	return [][]interface{}{{a[0], b[0]}, {a[1], b[1]}}
}

var tupleSlots = []SlotSpec{{J: 0, Classes: []Class{CSlice2, CArray2}}, {J: 1, Classes: []Class{CIface2, CSlice2}}}

// condition forms shared by Where / Not / Or / Having and inline conditions.
var condForms = []condForm{
	{`"{0} = ?", v`, []SlotSpec{anySlot(0)}, func(c *Ctx, v []Val) (interface{}, []interface{}) {
		return c.tpl("{0} = ?"), []interface{}{v[0].V}
	}, true},
	{`"{0} IN ?", v`, []SlotSpec{inSlot(0)}, func(c *Ctx, v []Val) (interface{}, []interface{}) {
		return c.tpl("{0} IN ?"), []interface{}{v[0].V}
	}, false},
	{`"{0} IN (?)", v`, []SlotSpec{listSlot(0)}, func(c *Ctx, v []Val) (interface{}, []interface{}) {
		return c.tpl("{0} IN (?)"), []interface{}{v[0].V}
	}, true},
	{`"{0} = ? AND {1} <> ?", v, w`, []SlotSpec{anySlot(0), anySlot(1)}, func(c *Ctx, v []Val) (interface{}, []interface{}) {
		return c.tpl("{0} = ? AND {1} <> ?"), []interface{}{v[0].V, v[1].V}
	}, false},
	{`"({0},{1}) IN ?", tuples`, tupleSlots, func(c *Ctx, v []Val) (interface{}, []interface{}) {
		return c.tpl("({0},{1}) IN ?"), []interface{}{tupleArg(v)}
	}, false},
	{`"{0}", v`, []SlotSpec{anySlot(0)}, func(c *Ctx, v []Val) (interface{}, []interface{}) {
		return c.Col(0), []interface{}{v[0].V}
	}, false},
	{`map{{0}:v,{1}:w}`, []SlotSpec{listSlot(0), listSlot(1)}, func(c *Ctx, v []Val) (interface{}, []interface{}) {
		return map[string]interface{}{c.Col(0): v[0].V, c.Col(1): v[1].V}, nil
	}, true},
	{`&W{typed fields}`, typedSlots(true, 0), func(c *Ctx, v []Val) (interface{}, []interface{}) {
		return NewCond(c.P, typedSet(c, v)), nil
	}, true},
	{`"{0} = @a OR {1} = @b", Named(b), Named(a)`, []SlotSpec{anySlot(0), anySlot(1)}, func(c *Ctx, v []Val) (interface{}, []interface{}) {
		return c.tpl("{0} = @a OR {1} = @b"), []interface{}{sql.Named("b", v[1].V), sql.Named("a", v[0].V)}
	}, true},
	{`"{0} = @a AND {1} IN @b", map{a,b}`, []SlotSpec{anySlot(0), inSlot(1)}, func(c *Ctx, v []Val) (interface{}, []interface{}) {
		return c.tpl("{0} = @a AND {1} IN @b"), []interface{}{map[string]interface{}{"a": v[0].V, "b": v[1].V}}
	}, false},
	{`"{0} = @A AND ({1} > @B)", struct{A,B}`, []SlotSpec{anySlot(0), anySlot(1)}, func(c *Ctx, v []Val) (interface{}, []interface{}) {
		return c.tpl("{0} = @A AND ({1} > @B)"), []interface{}{named{A: v[0].V, B: v[1].V}}
	}, false},
	{`"{0} = @a OR {0} <> @a", Named(a)`, []SlotSpec{anySlot(0)}, func(c *Ctx, v []Val) (interface{}, []interface{}) {
		return c.tpl("{0} = @a OR {0} <> @a"), []interface{}{sql.Named("a", v[0].V)}
	}, false},
	{`clause.Eq{{0},v}`, []SlotSpec{anySlot(0)}, func(c *Ctx, v []Val) (interface{}, []interface{}) {
		return clause.Eq{Column: c.Col(0), Value: v[0].V}, nil
	}, true},
	{`clause.Neq{{0},v}, clause.Gt{{1},w}`, []SlotSpec{anySlot(0), anySlot(1)}, func(c *Ctx, v []Val) (interface{}, []interface{}) {
		return clause.Neq{Column: c.Col(0), Value: v[0].V}, []interface{}{clause.Gt{Column: clause.Column{Name: c.Col(1)}, Value: v[1].V}}
	}, false},
	{`clause.IN{{0},[v,w]}`, []SlotSpec{{J: 0, Classes: []Class{CIface2, CSlice2, CArray2}}}, func(c *Ctx, v []Val) (interface{}, []interface{}) {
		return clause.IN{Column: c.Col(0), Values: v[0].Alts[0]}, nil
	}, false},
	{`clause.Like{{0},v}`, []SlotSpec{anySlot(0)}, func(c *Ctx, v []Val) (interface{}, []interface{}) {
		return clause.Like{Column: c.Col(0), Value: v[0].V}, nil
	}, false},
	{`"{0} = ?", gorm.Expr("COALESCE({1}, ?)", v)`, []SlotSpec{anySlot(1)}, func(c *Ctx, v []Val) (interface{}, []interface{}) {
		return c.tpl("{0} = ?"), []interface{}{gorm.Expr(c.tpl("COALESCE({1}, ?)"), v[0].V)}
	}, false},
	{`db.Where("{0} = ?", v).Or("{1} = ?", w)`, []SlotSpec{anySlot(0), anySlot(1)}, func(c *Ctx, v []Val) (interface{}, []interface{}) {
		return c.Base.Where(c.tpl("{0} = ?"), v[0].V).Or(c.tpl("{1} = ?"), v[1].V), nil
	}, true},
}

func buildOps() []*Op {
	var ops []*Op
	type verb struct {
		name   string
		clause string
		call   func(db *gorm.DB, q interface{}, a []interface{}) *gorm.DB
	}
	verbs := []verb{
		{"Where", "WHERE", func(db *gorm.DB, q interface{}, a []interface{}) *gorm.DB { return db.Where(q, a...) }},
		{"Not", "WHERE", func(db *gorm.DB, q interface{}, a []interface{}) *gorm.DB { return db.Not(q, a...) }},
		{"Or", "WHERE", func(db *gorm.DB, q interface{}, a []interface{}) *gorm.DB { return db.Or(q, a...) }},
		{"Having", "HAVING", func(db *gorm.DB, q interface{}, a []interface{}) *gorm.DB { return db.Having(q, a...) }},
	}
	for vi, vb := range verbs {
		for fi, f := range condForms {
			vb, f := vb, f
			core := f.core && vi == 0
			if vi > 0 {
				// Not / Or / Having: the forms that reach a different code path
				switch fi {
				case 0, 2, 6, 7, 8, 12, 17:
				default:
					continue
				}
				if vi == 3 && (fi == 7 || fi == 17) {
					continue
				}
				core = fi == 6 && vi != 3
			}
			ops = append(ops, &Op{
				Label:  vb.name + "(" + f.label + ")",
				Clause: vb.clause,
				Slots:  f.slots,
				Core:   core,
				Apply: func(db *gorm.DB, c *Ctx, v []Val) *gorm.DB {
					q, a := f.args(c, v)
					return vb.call(db, q, a)
				},
			})
		}
	}

	add := func(o *Op) { ops = append(ops, o) }

	add(&Op{Label: `Select("{0}, COALESCE({1}, ?) AS x", v)`, Clause: "SELECT", Slots: []SlotSpec{anySlot(1)}, Core: true,
		Apply: func(db *gorm.DB, c *Ctx, v []Val) *gorm.DB {
			return db.Select(c.tpl("{0}, COALESCE({1}, ?) AS x"), v[0].V)
		}})
	add(&Op{Label: `Select("{0} = @a AS x, {1} IN @b AS y", map{a,b})`, Clause: "SELECT", Slots: []SlotSpec{anySlot(0), inSlot(1)},
		Apply: func(db *gorm.DB, c *Ctx, v []Val) *gorm.DB {
			return db.Select(c.tpl("{0} = @a AS x, {1} IN @b AS y"), map[string]interface{}{"a": v[0].V, "b": v[1].V})
		}})
	add(&Op{Label: `Group("{0}")`, Clause: "GROUP",
		Apply: func(db *gorm.DB, c *Ctx, v []Val) *gorm.DB { return db.Group(c.Col(0)) }})
	add(&Op{Label: `Joins("JOIN t2 ON t2.id = other_id AND {0} = ?", v)`, Clause: "JOIN", Slots: []SlotSpec{anySlot(0)}, Core: true,
		Apply: func(db *gorm.DB, c *Ctx, v []Val) *gorm.DB {
			return db.Joins(c.tpl("JOIN t2 ON t2.id = other_id AND {0} = ?"), v[0].V)
		}})
	add(&Op{Label: `Joins("JOIN t2 j ON {0} = @a AND {1} IN (?)", Named(a), w)`, Clause: "JOIN", Slots: []SlotSpec{anySlot(0), listSlot(1)},
		Apply: func(db *gorm.DB, c *Ctx, v []Val) *gorm.DB {
			return db.Joins(c.tpl("JOIN t2 j ON {0} = @a AND {1} IN (?)"), v[1].V, sql.Named("a", v[0].V))
		}})
	add(&Op{Label: `Joins("Other", db.Where("{0} = ? OR {1} IN ?", v, w))`, Clause: "JOIN", Slots: []SlotSpec{anySlot(0), inSlot(1)}, Core: true, UniqueKey: "relation-join", NeedsSchema: true,
		Apply: func(db *gorm.DB, c *Ctx, v []Val) *gorm.DB {
			return db.Joins("Other", c.Base.Where(c.tpl("{0} = ? OR {1} IN ?"), v[0].V, v[1].V))
		}})
	add(&Op{Label: `InnerJoins("Other", db.Where(map{{0}:v}))`, Clause: "JOIN", Slots: []SlotSpec{listSlot(0)}, UniqueKey: "relation-join", NeedsSchema: true,
		Apply: func(db *gorm.DB, c *Ctx, v []Val) *gorm.DB {
			return db.InnerJoins("Other", c.Base.Where(map[string]interface{}{c.Col(0): v[0].V}))
		}})
	add(&Op{Label: `Order(clause.OrderBy{Expression: Expr("{0} = ? DESC", v)})`, Clause: "ORDER", Slots: []SlotSpec{anySlot(0)},
		Apply: func(db *gorm.DB, c *Ctx, v []Val) *gorm.DB {
			return db.Order(clause.OrderBy{Expression: clause.Expr{SQL: c.tpl("{0} = ? DESC"), Vars: []interface{}{v[0].V}}})
		}})
	add(&Op{Label: `Order(clause.OrderBy{Expression: Expr{"FIELD({0},?)", [list], WithoutParentheses}})`, Clause: "ORDER",
		Slots: []SlotSpec{{J: 0, ListCtx: true, Classes: []Class{CSlice3Int, CSlice2, CSlice1, CSlice0, CIface2, CBytes, CNamedBytes, CRawJSON, CStr, CDValuerSlice, CSliceNamedU8}}}, Core: true,
		Apply: func(db *gorm.DB, c *Ctx, v []Val) *gorm.DB {
			return db.Order(clause.OrderBy{Expression: clause.Expr{SQL: c.tpl("FIELD({0},?)"), Vars: []interface{}{v[0].V}, WithoutParentheses: true}})
		}})
	add(&Op{Label: `Clauses(clause.Expr{"{0} = ? OR {1} IS NULL", v})`, Clause: "WHERE", Slots: []SlotSpec{anySlot(0)},
		Apply: func(db *gorm.DB, c *Ctx, v []Val) *gorm.DB {
			return db.Clauses(clause.Expr{SQL: c.tpl("{0} = ? OR {1} IS NULL"), Vars: []interface{}{v[0].V}})
		}})
	add(&Op{Label: `Clauses(clause.Where{[Eq{{0},v}, Or(Lt{{1},w})]})`, Clause: "WHERE", Slots: []SlotSpec{anySlot(0), anySlot(1)},
		Apply: func(db *gorm.DB, c *Ctx, v []Val) *gorm.DB {
			return db.Clauses(clause.Where{Exprs: []clause.Expression{
				clause.Eq{Column: clause.Column{Table: clause.CurrentTable, Name: c.Col(0)}, Value: v[0].V},
				clause.Or(clause.Lt{Column: c.Col(1), Value: v[1].V}),
			}})
		}})
	add(&Op{Label: `Table("(?) as t", db.Table("ts").Where("{0} = ?", v))`, Clause: "TABLE", Slots: []SlotSpec{anySlot(0)}, Core: true,
		Apply: func(db *gorm.DB, c *Ctx, v []Val) *gorm.DB {
			return db.Table("(?) as t", c.Base.Table("ts").Where(c.tpl("{0} = ?"), v[0].V))
		}})
	add(&Op{Label: `Table("(?) as t", db.Raw("SELECT * FROM ts WHERE {0} IN ? AND {1} = @b", v, Named(b)))`, Clause: "TABLE", Slots: []SlotSpec{inSlot(0), anySlot(1)},
		Apply: func(db *gorm.DB, c *Ctx, v []Val) *gorm.DB {
			return db.Table("(?) as t", c.Base.Raw(c.tpl("SELECT * FROM ts WHERE {0} IN ? AND {1} = @b"), v[0].V, sql.Named("b", v[1].V)))
		}})
	add(&Op{Label: `Limit(n)`, Clause: "LIMIT", Slots: []SlotSpec{{Key: "LIMIT", Classes: []Class{CInt}}}, NoExec: true,
		Apply: func(db *gorm.DB, c *Ctx, v []Val) *gorm.DB { return db.Limit(v[0].V.(int)) }})
	add(&Op{Label: `Offset(n)`, Clause: "OFFSET", Slots: []SlotSpec{{Key: "OFFSET", Classes: []Class{CInt}}}, NoExec: true,
		Apply: func(db *gorm.DB, c *Ctx, v []Val) *gorm.DB { return db.Offset(v[0].V.(int)) }})
	add(&Op{Label: `Clauses(clause.OnConflict{Columns:[id], DoUpdates: Assignments(map{{0}:v,{1}:w})})`, Clause: "ONCONFLICT", Slots: []SlotSpec{anySlot(0), anySlot(1)}, Core: true,
		Apply: func(db *gorm.DB, c *Ctx, v []Val) *gorm.DB {
			return db.Clauses(clause.OnConflict{Columns: []clause.Column{{Name: "id"}},
				DoUpdates: clause.Assignments(map[string]interface{}{c.Col(0): v[0].V, c.Col(1): v[1].V})})
		}})
	add(&Op{Label: `Clauses(clause.OnConflict{Columns:[id], Where:[Eq{{0},v}], DoUpdates: Assignments(map{{1}:w})})`, Clause: "ONCONFLICT", Slots: []SlotSpec{anySlot(1), anySlot(0)},
		Apply: func(db *gorm.DB, c *Ctx, v []Val) *gorm.DB {
			return db.Clauses(clause.OnConflict{Columns: []clause.Column{{Name: "id"}},
				Where:     clause.Where{Exprs: []clause.Expression{clause.Eq{Column: c.Col(0), Value: v[1].V}}},
				DoUpdates: clause.Assignments(map[string]interface{}{c.Col(1): v[0].V})})
		}})
	add(&Op{Label: `Clauses(clause.OnConflict{UpdateAll:true})`, Clause: "ONCONFLICT",
		Apply: func(db *gorm.DB, c *Ctx, v []Val) *gorm.DB { return db.Clauses(clause.OnConflict{UpdateAll: true}) }})
	add(&Op{Label: `Scopes(func(d){ return d.Where("{0} = ?", v).Or("{1} IN ?", w) })`, Clause: "WHERE", Slots: []SlotSpec{anySlot(0), inSlot(1)},
		Apply: func(db *gorm.DB, c *Ctx, v []Val) *gorm.DB {
			q1, q2 := c.tpl("{0} = ?"), c.tpl("{1} IN ?")
			return db.Scopes(func(d *gorm.DB) *gorm.DB { return d.Where(q1, v[0].V).Or(q2, v[1].V) })
		}})

	// named arguments in further template-taking calls
	add(&Op{Label: `Joins("JOIN t2 k ON {0} = @a AND {1} = @b", map{a,b})`, Clause: "JOIN", Slots: []SlotSpec{anySlot(0), anySlot(1)},
		Apply: func(db *gorm.DB, c *Ctx, v []Val) *gorm.DB {
			return db.Joins(c.tpl("JOIN t2 k ON {0} = @a AND {1} = @b"), map[string]interface{}{"a": v[0].V, "b": v[1].V})
		}})
	add(&Op{Label: `Joins("JOIN t2 m ON {0} = @A OR {1} IN @B", struct{A,B})`, Clause: "JOIN", Slots: []SlotSpec{anySlot(0), inSlot(1)},
		Apply: func(db *gorm.DB, c *Ctx, v []Val) *gorm.DB {
			return db.Joins(c.tpl("JOIN t2 m ON {0} = @A OR {1} IN @B"), named{A: v[0].V, B: v[1].V})
		}})
	add(&Op{Label: `Order(clause.OrderBy{Expression: NamedExpr("{0} = @a DESC", Named(a))})`, Clause: "ORDER", Slots: []SlotSpec{anySlot(0)},
		Apply: func(db *gorm.DB, c *Ctx, v []Val) *gorm.DB {
			return db.Order(clause.OrderBy{Expression: clause.NamedExpr{SQL: c.tpl("{0} = @a DESC"), Vars: []interface{}{sql.Named("a", v[0].V)}}})
		}})

	// shortest spellings of the template-taking calls: just "?" or "(?)" — no
	// space, no quote, no column; the placeholder is governed by its keyword
	bare := func(key string, first Class) []SlotSpec {
		cl := []Class{first}
		for _, c := range AnyClasses {
			if c != first {
				cl = append(cl, c)
			}
		}
		return []SlotSpec{{Key: key, Classes: cl}}
	}
	bareList := func(key string, first Class) []SlotSpec {
		sp := bare(key, first)
		sp[0].ListCtx = true
		return sp
	}
	bareFor := func(t, key string, first Class) []SlotSpec {
		if t == "(?)" {
			return bareList(key, first)
		}
		return bare(key, first)
	}
	for _, t := range []string{"(?)", "?"} {
		t := t
		first := CSub
		if t == "?" {
			first = CExpr
		}
		add(&Op{Label: `Table("` + t + `", v)`, Clause: "TABLE", Slots: bareFor(t, "TABLE", first), UniqueKey: "bare-table", Bare: true, Core: t == "(?)",
			Apply: func(db *gorm.DB, c *Ctx, v []Val) *gorm.DB { return db.Table(t, v[0].V) }})
		add(&Op{Label: `Select("` + t + `", v)`, Clause: "SELECT", Slots: bareFor(t, "SELECT", first), Bare: true,
			Apply: func(db *gorm.DB, c *Ctx, v []Val) *gorm.DB { return db.Select(t, v[0].V) }})
		add(&Op{Label: `Where("` + t + `", v)`, Clause: "WHERE", Slots: bareFor(t, "COND", first), UniqueKey: "bare-cond", Bare: true,
			Apply: func(db *gorm.DB, c *Ctx, v []Val) *gorm.DB { return db.Where(t, v[0].V) }})
	}
	add(&Op{Label: `Joins("?", v)`, Clause: "JOIN", Slots: bare("TABLE", CExpr), UniqueKey: "bare-table", BareJoin: true, Bare: true,
		Apply: func(db *gorm.DB, c *Ctx, v []Val) *gorm.DB { return db.Joins("?", v[0].V) }})
	add(&Op{Label: `Not("?", v)`, Clause: "WHERE", Slots: bare("COND", CExpr), UniqueKey: "bare-cond", Bare: true,
		Apply: func(db *gorm.DB, c *Ctx, v []Val) *gorm.DB { return db.Not("?", v[0].V) }})
	add(&Op{Label: `Or("?", v)`, Clause: "WHERE", Slots: bare("COND", CExpr), UniqueKey: "bare-cond", Bare: true,
		Apply: func(db *gorm.DB, c *Ctx, v []Val) *gorm.DB { return db.Or("?", v[0].V) }})
	add(&Op{Label: `Having("?", v)`, Clause: "HAVING", Slots: bare("COND", CExpr), UniqueKey: "bare-cond", Bare: true,
		Apply: func(db *gorm.DB, c *Ctx, v []Val) *gorm.DB { return db.Having("?", v[0].V) }})
	add(&Op{Label: `Clauses(clause.Expr{"?", v})`, Clause: "WHERE", Slots: bare("COND", CExpr), UniqueKey: "bare-cond", Bare: true,
		Apply: func(db *gorm.DB, c *Ctx, v []Val) *gorm.DB {
			return db.Clauses(clause.Expr{SQL: "?", Vars: []interface{}{v[0].V}})
		}})
	add(&Op{Label: `Order(clause.OrderBy{Expression: Expr("?", v)})`, Clause: "ORDER", Slots: bare("ORDER", CExpr), Bare: true,
		Apply: func(db *gorm.DB, c *Ctx, v []Val) *gorm.DB {
			return db.Order(clause.OrderBy{Expression: clause.Expr{SQL: "?", Vars: []interface{}{v[0].V}}})
		}})

	// explicit RETURNING: makes the update / delete / create executors take
	// their query-and-scan branch instead of the plain exec branch
	add(&Op{Label: `Clauses(clause.Returning{})`, Clause: "RETURNING", Core: true,
		Apply: func(db *gorm.DB, c *Ctx, v []Val) *gorm.DB { return db.Clauses(clause.Returning{}) }})
	add(&Op{Label: `Clauses(clause.Returning{Columns:[id,c40]})`, Clause: "RETURNING",
		Apply: func(db *gorm.DB, c *Ctx, v []Val) *gorm.DB {
			return db.Clauses(clause.Returning{Columns: []clause.Column{{Name: "id"}, {Name: "c40"}}})
		}})
	return ops
}

// Ops is the clause-call alphabet.
var Ops = buildOps()

var opByLabel = func() map[string]*Op {
	m := map[string]*Op{}
	for _, o := range Ops {
		if _, dup := m[o.Label]; dup {
			panic("duplicate op label " + o.Label)
		}
		m[o.Label] = o
	}
	return m
}()
