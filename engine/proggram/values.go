package proggram

import (
	"database/sql"
	"encoding/json"
	"fmt"
	"net"
	"regexp"
	"strconv"
	"time"

	"gorm.io/gorm"
)

// Class is a value class of the argument alphabet.
type Class int

const (
	CStr Class = iota
	CQuote
	CDQuote
	CBackslash
	CQMark
	CAtName
	CParen
	CDashes
	CDollar
	CUnicode
	CInject
	CInt
	CPtr
	CNilPtr
	CNullValid
	CNullInvalid
	CBytes
	CTime
	CSlice0
	CSlice1
	CSlice2
	CSlice3Int
	CArray2
	CIface2
	CNested
	CExpr
	CDValuer
	CDValuerSlice
	CGValuer
	CSub
	CSubRaw
	CRawJSON
	CNetIP
	CNamedBytes
	CByteArray
	CNil
	CSliceNamedU8
	NumClasses
)

var ClassName = []string{
	"str", "str-quote", "str-dquote", "str-backslash", "str-qmark", "str-atname", "str-paren",
	"str-dashes", "str-dollar", "str-unicode", "str-inject", "int", "ptr", "nil-ptr",
	"nullstring-valid", "nullstring-invalid", "bytes", "time", "slice0", "slice1", "slice2",
	"slice3-int", "array2", "iface-slice2", "nested-slice", "expr-with-args", "driver-valuer",
	"driver-valuer-slice", "gorm-valuer", "subquery", "subquery-raw",
	"json-rawmessage", "net-ip", "named-byte-slice", "byte-array", "untyped-nil",
	"slice-of-named-uint8",
}

// StringClasses are the classes whose Go value is a string.
var StringClasses = []Class{CStr, CQuote, CDQuote, CBackslash, CQMark, CAtName, CParen, CDashes, CDollar, CUnicode, CInject}

// AnyClasses: all classes (a slot that takes interface{}).
var AnyClasses = func() []Class {
	var out []Class
	for c := Class(0); c < NumClasses; c++ {
		out = append(out, c)
	}
	return out
}()

// PathClasses: one representative per code path (used for 2-deviation runs).
var PathClasses = []Class{CStr, CQMark, CInt, CNilPtr, CNullInvalid, CBytes, CSlice0, CSlice2, CNested, CExpr, CDValuerSlice, CGValuer, CSub, CSubRaw, CNamedBytes, CByteArray, CNil}

// NB is a named byte-slice type that is neither []byte nor a driver.Valuer.
type NB []byte

// LV is a named uint8 type: a []LV is an ordinary slice (one bound value per
// element), not a byte string.
type LV uint8

// BA is a byte array.
type BA [16]byte

// Val is one marked argument value.
type Val struct {
	Class Class
	ID    int
	V     interface{}
	// Alts: the acceptable sequences of bound values (in order) for this
	// argument. More than one when the property allows it (empty slice: no
	// value or one NULL; nil pointer: bound nil or IS NULL; []byte: one value
	// or one per element where a list is expanded).
	Alts [][]interface{}
	// Markers must never occur in the SQL text.
	Markers []string
	// ZeroLike: nil / zero value (struct conditions and Updates(struct) skip it).
	ZeroLike bool
	// PerByteAlt: index into Alts of the "one bound value per byte" alternative of
	// a byte-kind value (-1: none); admissible only at a ListCtx position.
	PerByteAlt int
	// InnerKey: when set, the bound values are governed by this column (inside
	// a sub-query) instead of the slot's column.
	InnerKey string
}

func tok(id, j int) string { return "Mk" + strconv.Itoa(id) + "e" + strconv.Itoa(j) + "Z" }
func num(id, j int) int    { return 7000000 + id*1000 + j }

// MarkerRe matches any marker in a rendered value or SQL text.
var MarkerRe = regexp.MustCompile(`Mk\d+e\d+Z|7\d{6}|3\d{3}-01-`)

func strBody(c Class, id, j int) string {
	t := tok(id, j)
	switch c {
	case CQuote:
		return "it's '" + t + "' OR '1'='1"
	case CDQuote:
		return `say "` + t + `" x`
	case CBackslash:
		return `back\` + t + `\' \\`
	case CQMark:
		return "what? " + t + " ?? ?"
	case CAtName:
		return "@a @v @name " + t + " @b"
	case CParen:
		return "x) OR (1=1 " + t + ")"
	case CDashes:
		return t + " -- comment /* */"
	case CDollar:
		return "$1 $2 " + t + " $10 $11"
	case CUnicode:
		return "ünï " + t + " 世界 🙂"
	case CInject:
		return "'; DROP TABLE ts; --" + t
	}
	return "a" + t + "b"
}

var hostileCycle = []Class{CQuote, CQMark, CAtName, CDollar}

func elemStr(id, j int) string { return strBody(hostileCycle[j%len(hostileCycle)], id, j) }

func timeOf(id, j int) time.Time { return time.Date(3000+id, 1, 1+j, 10, 20, 30, 0, time.UTC) }

var filler11 = []int{1, 2, 3, 4, 5, 6, 7, 8, 9, 10, 11}

func one(v interface{}) [][]interface{} { return [][]interface{}{{v}} }

// Make builds the marked value of class c for slot id. base is a fresh
// (NewDB) handle used to build sub-query values.
func Make(c Class, id int, base *gorm.DB) Val {
	v := Val{Class: c, ID: id, PerByteAlt: -1}
	switch c {
	case CStr, CQuote, CDQuote, CBackslash, CQMark, CAtName, CParen, CDashes, CDollar, CUnicode, CInject:
		s := strBody(c, id, 0)
		v.V, v.Alts, v.Markers = s, one(s), []string{tok(id, 0)}
	case CInt:
		n := num(id, 0)
		v.V, v.Alts, v.Markers = n, one(n), []string{strconv.Itoa(n)}
	case CPtr:
		s := strBody(CQuote, id, 0)
		v.V, v.Alts, v.Markers = &s, one(&s), []string{tok(id, 0)}
	case CNilPtr:
		var p *string
		v.V, v.Alts, v.ZeroLike = p, [][]interface{}{{p}, {}}, true
	case CNil:
		// untyped nil (a nil interface): bound as NULL, or rendered IS NULL
		v.V, v.Alts, v.ZeroLike = nil, [][]interface{}{{nil}, {}}, true
	case CNullValid:
		ns := sql.NullString{String: strBody(CQMark, id, 0), Valid: true}
		v.V, v.Alts, v.Markers = ns, one(ns), []string{tok(id, 0)}
	case CNullInvalid:
		ns := sql.NullString{}
		v.V, v.Alts, v.ZeroLike = ns, [][]interface{}{{ns}, {}}, true
	case CBytes:
		b := []byte(strBody(CQuote, id, 0))
		per := make([]interface{}, len(b))
		for i := range b {
			per[i] = b[i]
		}
		v.V, v.Alts, v.Markers, v.PerByteAlt = b, [][]interface{}{{b}, per}, []string{tok(id, 0)}, 1
	case CRawJSON, CNetIP, CNamedBytes, CByteArray:
		// byte-kind values that reach AddVar's reflect branch (not the []byte
		// case, not a Valuer): one bound value, or one per byte in an expanded list
		b := []byte(`{"k":"` + tok(id, 0) + `'?"}`)
		var val interface{}
		switch c {
		case CRawJSON:
			val = json.RawMessage(b)
		case CNetIP:
			val = net.IP(b)
		case CNamedBytes:
			val = NB(b)
		default:
			var a BA
			for i := range a {
				a[i] = '?'
			}
			copy(a[:], tok(id, 0))
			val, b = a, a[:]
		}
		per := make([]interface{}, len(b))
		for i := range b {
			per[i] = b[i]
		}
		v.V, v.Alts, v.Markers, v.PerByteAlt = val, [][]interface{}{{val}, per}, []string{tok(id, 0)}, 1
	case CSliceNamedU8:
		a, b, c3 := LV(11+id%100), LV(117+id%100), LV(151+id%100)
		v.V, v.Alts = []LV{a, b, c3}, [][]interface{}{{a, b, c3}}
	case CTime:
		t := timeOf(id, 0)
		v.V, v.Alts, v.Markers = t, one(t), []string{fmt.Sprintf("%04d-01-", 3000+id)}
	case CSlice0:
		v.V, v.Alts = []string{}, [][]interface{}{{}, {nil}}
	case CSlice1:
		s := elemStr(id, 0)
		v.V, v.Alts, v.Markers = []string{s}, one(s), []string{tok(id, 0)}
	case CSlice2:
		a, b := elemStr(id, 0), elemStr(id, 1)
		v.V, v.Alts, v.Markers = []string{a, b}, [][]interface{}{{a, b}}, []string{tok(id, 0), tok(id, 1)}
	case CSlice3Int:
		a, b, c3 := num(id, 0), num(id, 1), num(id, 2)
		v.V, v.Alts = []int{a, b, c3}, [][]interface{}{{a, b, c3}}
		v.Markers = []string{strconv.Itoa(a), strconv.Itoa(b), strconv.Itoa(c3)}
	case CArray2:
		a, b := elemStr(id, 0), elemStr(id, 1)
		v.V, v.Alts, v.Markers = [2]string{a, b}, [][]interface{}{{a, b}}, []string{tok(id, 0), tok(id, 1)}
	case CIface2:
		a, b := elemStr(id, 0), num(id, 1)
		v.V, v.Alts, v.Markers = []interface{}{a, b}, [][]interface{}{{a, b}}, []string{tok(id, 0), strconv.Itoa(b)}
	case CNested:
		a, b, c3, d := elemStr(id, 0), num(id, 1), elemStr(id, 2), num(id, 3)
		v.V = []interface{}{[]interface{}{a, b}, []interface{}{c3, d}}
		v.Alts = [][]interface{}{{a, b, c3, d}}
		v.Markers = []string{tok(id, 0), strconv.Itoa(b), tok(id, 2), strconv.Itoa(d)}
	case CExpr:
		a, b := elemStr(id, 0), num(id, 1)
		v.V = gorm.Expr("? || ?", a, b)
		v.Alts = [][]interface{}{{a, b}}
		v.Markers = []string{tok(id, 0), strconv.Itoa(b)}
	case CDValuer:
		d := DV{S: strBody(CQuote, id, 0)}
		v.V, v.Alts, v.Markers = d, one(d), []string{tok(id, 0)}
	case CDValuerSlice:
		d := DVS{elemStr(id, 0), elemStr(id, 1)}
		v.V, v.Alts, v.Markers = d, one(d), []string{tok(id, 0), tok(id, 1)}
	case CGValuer:
		s := strBody(CQMark, id, 0)
		v.V, v.Alts, v.Markers = GV{S: s}, one(s), []string{tok(id, 0)}
	case CSub, CSubRaw:
		s := strBody(CDollar, id, 0)
		key := "q" + strconv.Itoa(id)
		if c == CSub {
			v.V = base.Table("t2").Select("id").Where("id NOT IN ?", filler11).Where(key+" = ?", s)
		} else {
			v.V = base.Raw("SELECT id FROM t2 WHERE id NOT IN ? AND "+key+" = ?", filler11, s)
		}
		v.Alts, v.Markers, v.InnerKey = one(s), []string{tok(id, 0)}, key
	default:
		panic(fmt.Sprintf("unknown class %d", c))
	}
	return v
}
