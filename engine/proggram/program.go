package proggram

import (
	"fmt"
	"strings"

	"gorm.io/gorm"
)

// Case is the serialisable description of one program (replay format).
type Case struct {
	Model    int      `json:"model"`             // 0 = T (plain), 1 = S (timestamps + soft delete)
	Ops      []string `json:"ops"`               // clause-call labels, in call order
	Fin      string   `json:"finisher"`          // finisher label
	Classes  []int    `json:"classes,omitempty"` // value class per argument slot (program order); missing = default
	Readable string   `json:"readable,omitempty"`
	// Strict: the handles are opened WITHOUT AllowGlobalUpdate (used by C19), so
	// an update / delete without condition is refused instead of sent.
	Strict bool `json:"allow_global_update_off,omitempty"`
	// SessionAGU (with Strict): AllowGlobalUpdate is switched on by Session instead of Config.
	SessionAGU bool `json:"allow_global_update_by_session,omitempty"`
	// Logger (C19 handle configuration): 0 logger.Discard, 1 stock logger at
	// Info with ParameterizedQueries, 2 stock logger at Silent, 3 db.Debug().
	Logger int `json:"logger,omitempty"`
	// Prefix (C19): number of leading calls applied to the receiver BEFORE
	// Session{DryRun:true} / ToSQL is taken from it.
	Prefix int `json:"receiver_prefix,omitempty"`
	// QueryFields (C19 handle configuration): 0 off, 1 Config.QueryFields,
	// 2 switched on by an earlier Session the DryRun session / ToSQL is taken from.
	QueryFields int `json:"query_fields,omitempty"`
}

// Slot is one argument position of a resolved program.
type Slot struct {
	ID    int    // marker number (1-based, program order)
	Key   string // governing key: column name (+ "#row"), LIMIT, OFFSET
	OpIdx int    // index into Ops, or -1 for the finisher
	Spec  SlotSpec
	Class Class
}

// Prog is a resolved program.
type Prog struct {
	// SQLite: the program runs on the real SQLite dialector, whose own INSERT
	// builder (outside gorm) writes the table name and ignores a table
	// expression, so Table("(?) as t", sub) is not rendered by creates.
	SQLite bool
	Case   Case
	Ops    []*Op
	Fin    *Fin
	Slots  []Slot
}

func slotKey(p int, s SlotSpec) string {
	if s.Key != "" {
		return s.Key
	}
	k := string([]byte{'c', byte('0' + p), byte('0' + s.J)})
	if s.Row > 0 {
		k += "#" + string([]byte{byte('0' + s.Row)})
	}
	return k
}

// Resolve turns a Case into a program; Classes may be shorter than the number
// of slots (defaults fill the rest).
func Resolve(c Case) (*Prog, error) {
	p := &Prog{Case: c}
	if len(c.Ops) > 3 {
		return nil, fmt.Errorf("more than 3 clause calls")
	}
	for _, l := range c.Ops {
		o, ok := opByLabel[l]
		if !ok {
			return nil, fmt.Errorf("unknown clause call %q", l)
		}
		p.Ops = append(p.Ops, o)
	}
	f, ok := finByLabel[c.Fin]
	if !ok {
		return nil, fmt.Errorf("unknown finisher %q", c.Fin)
	}
	p.Fin = f
	id := 0
	addSlots := func(pos, opIdx int, specs []SlotSpec) error {
		for _, s := range specs {
			id++
			cl := s.Classes[0]
			if id-1 < len(c.Classes) && c.Classes[id-1] >= 0 {
				cl = Class(c.Classes[id-1])
				okc := false
				for _, a := range s.Classes {
					if a == cl {
						okc = true
					}
				}
				if !okc {
					return fmt.Errorf("class %d not admissible at slot %d", cl, id)
				}
			}
			p.Slots = append(p.Slots, Slot{ID: id, Key: slotKey(pos, s), OpIdx: opIdx, Spec: s, Class: cl})
		}
		return nil
	}
	for i, o := range p.Ops {
		if err := addSlots(i+1, i, o.Slots); err != nil {
			return nil, err
		}
	}
	if err := addSlots(4, -1, f.Slots); err != nil {
		return nil, err
	}
	return p, nil
}

// NumSlots returns the number of argument slots of (ops, fin).
func NumSlots(ops []*Op, f *Fin) int {
	n := len(f.Slots)
	for _, o := range ops {
		n += len(o.Slots)
	}
	return n
}

// Run applies the program to db (which must be a clone-1 handle such as
// gorm.Open's result or a Session) and returns the finisher's result and the
// argument values used.
func (p *Prog) Run(db *gorm.DB) (*gorm.DB, []Val) { return p.RunSplit(db, 0, nil) }

// RunSplit applies the first k calls to db (the "receiver prefix"), hands the
// resulting handle to enter — which may derive a session from it or call
// ToSQL on it and must call body exactly once with the handle to continue on —
// and applies the remaining calls and the finisher inside body. enter == nil
// continues on the prefix handle itself.
func (p *Prog) RunSplit(db *gorm.DB, k int, enter func(h *gorm.DB, body func(tx *gorm.DB) *gorm.DB)) (*gorm.DB, []Val) {
	rootBase := db.Session(&gorm.Session{NewDB: true})
	vals := make([]Val, len(p.Slots))
	for i, s := range p.Slots {
		vals[i] = Make(s.Class, s.ID, rootBase)
	}
	if k > len(p.Ops) {
		k = len(p.Ops)
	}
	off := 0
	h := db
	for i := 0; i < k; i++ {
		o := p.Ops[i]
		n := len(o.Slots)
		h = o.Apply(h, &Ctx{P: i + 1, Model: p.Case.Model, Base: rootBase}, vals[off:off+n])
		off += n
	}
	var out *gorm.DB
	body := func(tx *gorm.DB) *gorm.DB {
		// the finisher's own base handle must inherit the mode (DryRun) of tx
		base := tx.Session(&gorm.Session{NewDB: true})
		o2 := off
		for i := k; i < len(p.Ops); i++ {
			o := p.Ops[i]
			n := len(o.Slots)
			tx = o.Apply(tx, &Ctx{P: i + 1, Model: p.Case.Model, Base: base}, vals[o2:o2+n])
			o2 += n
		}
		out = p.Fin.Run(tx, &Ctx{P: 4, Model: p.Case.Model, Base: base}, vals[o2:])
		return out
	}
	if enter == nil {
		body(h)
	} else {
		enter(h, body)
	}
	return out, vals
}

// MustAppear reports whether slot i has to be rendered (its column with its
// values) by the input-side rules: the finisher renders the call's clause, no
// later call of an overriding kind replaces it, and the value is not a zero
// value at a position that skips zero values.
func (p *Prog) MustAppear(i int, v Val) bool {
	s := p.Slots[i]
	if s.Spec.SkipsZero && v.ZeroLike {
		return false
	}
	if s.OpIdx < 0 {
		return true
	}
	o := p.Ops[s.OpIdx]
	if p.Fin.NoSchema && o.NeedsSchema {
		return false
	}
	if !p.Fin.Builds[o.Clause] || (p.SQLite && o.Clause == "TABLE" && p.Fin.Kind == "create") {
		return false
	}
	switch o.Clause {
	case "SELECT", "LIMIT", "OFFSET", "TABLE", "ORDER", "ONCONFLICT":
		for j := s.OpIdx + 1; j < len(p.Ops); j++ {
			if p.Ops[j].Clause == o.Clause {
				return false
			}
		}
	}
	return true
}

// ReturningIntoNoScanDest: the program combines an explicit RETURNING call
// with a finisher whose destination cannot receive returned rows; the real
// run of such a program panics inside gorm's Scan (unchanged tree). Input-side
// predicate used to classify that panic.
func (p *Prog) ReturningIntoNoScanDest() bool {
	if !p.Fin.NoScanDest {
		return false
	}
	// model U has database-default columns, so gorm itself adds RETURNING with
	// columns to every create: a []map destination cannot receive them either
	if p.Case.Model == ModelU && strings.Contains(p.Fin.Label, "[]map") {
		return true
	}
	for _, o := range p.Ops {
		if o.Clause == "RETURNING" {
			return true
		}
	}
	return false
}

// MayAppear reports whether the finisher can render slot i's call at all; a
// column of a call that is not rendered is an ordinary column.
func (p *Prog) MayAppear(i int) bool {
	s := p.Slots[i]
	if s.OpIdx < 0 {
		return true
	}
	cl := p.Ops[s.OpIdx].Clause
	if p.Fin.NoSchema && p.Ops[s.OpIdx].NeedsSchema {
		return false
	}
	if p.SQLite && cl == "TABLE" && p.Fin.Kind == "create" {
		return false
	}
	return p.Fin.Builds[cl] || p.Fin.May[cl]
}

func render(label string, pos int) string {
	for j := 0; j <= 9; j++ {
		label = strings.ReplaceAll(label, fmt.Sprintf("{%d}", j), fmt.Sprintf("c%d%d", pos, j))
	}
	return label
}

func (p *Prog) String() string {
	var parts []string
	for i, o := range p.Ops {
		parts = append(parts, render(o.Label, i+1))
	}
	fl := strings.ReplaceAll(strings.ReplaceAll(render(p.Fin.Label, 4), "own", TableOf[p.Case.Model]), "M{", ModelName[p.Case.Model]+"{")
	parts = append(parts, fl)
	var cls []string
	for _, s := range p.Slots {
		cls = append(cls, fmt.Sprintf("#%d@%s=%s", s.ID, s.Key, ClassName[s.Class]))
	}
	agu := ""
	if p.Case.Strict {
		agu = " AllowGlobalUpdate=off"
		if p.Case.SessionAGU {
			agu = " AllowGlobalUpdate=by-session"
		}
	}
	if p.Case.Prefix > 0 {
		agu += fmt.Sprintf(" receiver-prefix=%d", p.Case.Prefix)
	}
	if p.Case.QueryFields > 0 {
		agu += " QueryFields=" + []string{"", "config", "earlier-session"}[p.Case.QueryFields]
	}
	if p.Case.Logger > 0 {
		agu += " logger=" + []string{"discard", "info+parameterized", "silent", "debug()"}[p.Case.Logger]
	}
	return fmt.Sprintf("model=%s%s :: db.%s  [%s]", ModelName[p.Case.Model], agu, strings.Join(parts, "."), strings.Join(cls, " "))
}

// ---------------------------------------------------------------------------
// enumeration

// Shape is a program without value classes.
type Shape struct {
	Model int
	Ops   []*Op
	Fin   *Fin
}

func (s Shape) Case(classes []int) Case {
	c := Case{Model: s.Model, Fin: s.Fin.Label, Classes: classes}
	for _, o := range s.Ops {
		c.Ops = append(c.Ops, o.Label)
	}
	return c
}

// Prog resolves the shape with a class vector without going through labels.
func (s Shape) Prog(classes []int) *Prog {
	p := &Prog{Ops: s.Ops, Fin: s.Fin}
	p.Case.Model = s.Model
	id := 0
	add := func(pos, opIdx int, specs []SlotSpec) {
		for _, sp := range specs {
			p.Slots = append(p.Slots, Slot{ID: id + 1, Key: slotKey(pos, sp), OpIdx: opIdx, Spec: sp, Class: Class(classes[id])})
			id++
		}
	}
	for i, o := range s.Ops {
		add(i+1, i, o.Slots)
	}
	add(4, -1, s.Fin.Slots)
	return p
}

// FullCase returns the serialisable form of a resolved program.
func (p *Prog) FullCase() Case {
	c := Case{Model: p.Case.Model, Fin: p.Fin.Label, Readable: p.String(), Strict: p.Case.Strict, SessionAGU: p.Case.SessionAGU, Logger: p.Case.Logger, Prefix: p.Case.Prefix, QueryFields: p.Case.QueryFields}
	for _, o := range p.Ops {
		c.Ops = append(c.Ops, o.Label)
	}
	for _, s := range p.Slots {
		c.Classes = append(c.Classes, int(s.Class))
	}
	return c
}

func uniqueOK(ops []*Op) bool {
	seen := map[string]bool{}
	joins, bareJoin := 0, false
	for _, o := range ops {
		if o.UniqueKey != "" {
			if seen[o.UniqueKey] {
				return false
			}
			seen[o.UniqueKey] = true
		}
		if o.Clause == "JOIN" {
			joins++
		}
		if o.BareJoin {
			bareJoin = true
		}
	}
	return !(bareJoin && joins > 1)
}

// OpsFor returns the clause-call alphabet: core=true the reduced one,
// exec=true without the calls marked NoExec.
func OpsFor(core, exec bool) []*Op { return OpsWith(core, exec, true) }

// OpsWith is OpsFor with the shortest-spelling calls optionally left out.
func OpsWith(core, exec, bare bool) []*Op {
	var out []*Op
	for _, o := range Ops {
		if (exec && o.NoExec) || (core && !o.Core) || (!bare && o.Bare) {
			continue
		}
		out = append(out, o)
	}
	return out
}

// FinsFor returns the finishers: rep=true one representative per code path
// only; multi=false leaves out the finishers without a single main statement.
func FinsFor(rep, multi bool) []*Fin {
	var out []*Fin
	for _, f := range Fins {
		if (rep && !f.Rep) || (!multi && f.Multi) {
			continue
		}
		out = append(out, f)
	}
	return out
}

// Seqs enumerates all call sequences of length minLen..maxLen over alpha.
func Seqs(alpha []*Op, minLen, maxLen int) [][]*Op {
	var seqs [][]*Op
	var rec func(prefix []*Op)
	rec = func(prefix []*Op) {
		if len(prefix) >= minLen && uniqueOK(prefix) {
			seqs = append(seqs, append([]*Op(nil), prefix...))
		}
		if len(prefix) == maxLen {
			return
		}
		for _, o := range alpha {
			rec(append(prefix, o))
		}
	}
	rec(nil)
	return seqs
}

// Shapes is the product models x seqs x fins.
func Shapes(models []int, seqs [][]*Op, fins []*Fin) []Shape {
	var out []Shape
	for _, m := range models {
		for _, s := range seqs {
			for _, f := range fins {
				out = append(out, Shape{Model: m, Ops: s, Fin: f})
			}
		}
	}
	return out
}

// CyclicShapes gives every call sequence perSeq finishers (and one model)
// chosen cyclically, so that over all sequences every (call, finisher),
// (call, call) and (call, model) pair occurs although the full product
// sequences x finishers x models is not formed (pairwise covering).
func CyclicShapes(models []int, seqs [][]*Op, fins []*Fin, perSeq int) []Shape {
	idx := map[*Op]int{}
	for i, o := range Ops {
		idx[o] = i
	}
	var out []Shape
	for n, s := range seqs {
		h := 0
		for pos, o := range s {
			h += idx[o] * (1 + 2*pos) // position-dependent, so (a,b) and (b,a) differ
		}
		for k := 0; k < perSeq; k++ {
			f := fins[(h*perSeq+k)%len(fins)]
			out = append(out, Shape{Model: models[(n+k)%len(models)], Ops: s, Fin: f})
		}
	}
	return out
}

// PairwiseVectors calls f with the default class vector and with one vector
// per clause call in which exactly one slot of that call deviates; which
// (slot, class) deviates is chosen by the identity of the OTHER calls (+salt),
// so that over all partners of a call every class occurs at every one of its
// slots (pairwise covering of call x partner and slot x class instead of the
// full product). restrict limits the classes (nil = all admissible ones).
func (s Shape) PairwiseVectors(salt int, restrict []Class, f func(classes []int)) {
	specs := s.slotSpecs()
	vec := make([]int, len(specs))
	for i, sp := range specs {
		vec[i] = int(sp.Classes[0])
	}
	f(vec)
	idx := map[*Op]int{}
	for i, o := range Ops {
		idx[o] = i
	}
	off := 0
	for pos, o := range s.Ops {
		type dv struct{ slot, class int }
		var devs []dv
		for j, sp := range o.Slots {
			for _, c := range sp.Classes[1:] {
				ok := restrict == nil
				for _, r := range restrict {
					if r == c {
						ok = true
					}
				}
				if ok {
					devs = append(devs, dv{off + j, int(c)})
				}
			}
		}
		off += len(o.Slots)
		if len(devs) == 0 {
			continue
		}
		other := salt
		for q, o2 := range s.Ops {
			if q != pos {
				other += idx[o2]
			}
		}
		d := devs[other%len(devs)]
		old := vec[d.slot]
		vec[d.slot] = d.class
		f(vec)
		vec[d.slot] = old
	}
}

// slotSpecs lists the slot specs of a shape in program order.
func (s Shape) slotSpecs() []SlotSpec {
	var specs []SlotSpec
	for _, o := range s.Ops {
		specs = append(specs, o.Slots...)
	}
	return append(specs, s.Fin.Slots...)
}

// ClassVectors calls f with every class assignment of the shape in which at
// most dev slots deviate from their default class; a second deviation ranges
// over restrict2 only, the first over restrict1 (nil = all admissible classes). The vector passed to f
// is reused: copy it to keep it.
func (s Shape) ClassVectors(dev int, restrict1, restrict2 []Class, f func(classes []int)) {
	specs := s.slotSpecs()
	vec := make([]int, len(specs))
	for i, sp := range specs {
		vec[i] = int(sp.Classes[0])
	}
	f(vec)
	if dev < 1 {
		return
	}
	in := func(set []Class, c Class) bool {
		if set == nil {
			return true
		}
		for _, r := range set {
			if r == c {
				return true
			}
		}
		return false
	}
	inR := func(c Class) bool { return in(restrict2, c) }
	for i, sp := range specs {
		for _, c := range sp.Classes[1:] {
			if !in(restrict1, c) {
				continue
			}
			vec[i] = int(c)
			f(vec)
			if dev >= 2 && inR(c) {
				for j := i + 1; j < len(specs); j++ {
					for _, c2 := range specs[j].Classes[1:] {
						if !inR(c2) {
							continue
						}
						vec[j] = int(c2)
						f(vec)
					}
					vec[j] = int(specs[j].Classes[0])
				}
			}
		}
		vec[i] = int(sp.Classes[0])
	}
}
