// Package proggram is the program grammar shared by the C01 and C19 harnesses:
// models, marked argument values of every value class, clause calls,
// finishers, and the enumeration of programs.
//
// Naming convention on which the C01 alignment oracle rests: the clause call
// at position p (1..3; the finisher is position 4) uses only the columns
// c<p>0 … c<p>9, and every argument slot is used against exactly one of these
// columns, so the column name adjacent to a placeholder identifies the
// argument that must be bound there.
package proggram

import (
	"context"
	"database/sql"
	"database/sql/driver"
	"fmt"
	"reflect"
	"strings"
	"time"

	"gorm.io/gorm"
	"gorm.io/gorm/clause"
)

// DV is a custom driver.Valuer (struct kind).
type DV struct{ S string }

func (d DV) Value() (driver.Value, error) { return "dv:" + d.S, nil }
func (d *DV) Scan(v interface{}) error {
	d.S = strings.TrimPrefix(fmt.Sprint(v), "dv:")
	return nil
}

// DVS is a custom driver.Valuer of slice kind (must be bound as ONE value).
type DVS []string

func (d DVS) Value() (driver.Value, error) { return "dvs:" + strings.Join(d, "|"), nil }

// GV is a gorm.Valuer: rendered as an SQL expression with its own argument.
type GV struct{ S string }

func (g GV) GormDataType() string { return "text" }
func (g GV) GormValue(ctx context.Context, db *gorm.DB) clause.Expr {
	return clause.Expr{SQL: "UPPER(?)", Vars: []interface{}{g.S}}
}
func (g *GV) Scan(v interface{}) error {
	switch t := v.(type) {
	case []byte:
		g.S = string(t)
	case string:
		g.S = t
	}
	return nil
}

// Grp is one group of typed columns; one group per program position.
// field index j: 0 string, 1 int, 2 *string, 3 sql.NullString, 4 []byte,
// 5 time.Time, 6 DV, 7 GV, 8 string, 9 string.

// Cols holds the typed columns c40…c49 of the models (position 4 = the
// finisher). The columns c10…c39 exist in the tables but not in the model
// structs, so that a struct Create does not mention them.
type Cols struct {
	F40 string         `gorm:"column:c40"`
	F41 int            `gorm:"column:c41"`
	F42 *string        `gorm:"column:c42"`
	F43 sql.NullString `gorm:"column:c43"`
	F44 []byte         `gorm:"column:c44"`
	F45 time.Time      `gorm:"column:c45"`
	F46 DV             `gorm:"column:c46"`
	F47 GV             `gorm:"column:c47"`
	F48 string         `gorm:"column:c48"`
	F49 string         `gorm:"column:c49"`
}

// W1, W2, W3 are the condition structs of positions 1..3 (typed columns
// c<p>0…c<p>7); gorm renders a struct condition against the current table.
type W1 struct {
	F10 string         `gorm:"column:c10"`
	F11 int            `gorm:"column:c11"`
	F12 *string        `gorm:"column:c12"`
	F13 sql.NullString `gorm:"column:c13"`
	F14 []byte         `gorm:"column:c14"`
	F15 time.Time      `gorm:"column:c15"`
	F16 DV             `gorm:"column:c16"`
	F17 GV             `gorm:"column:c17"`
}
type W2 struct {
	F20 string         `gorm:"column:c20"`
	F21 int            `gorm:"column:c21"`
	F22 *string        `gorm:"column:c22"`
	F23 sql.NullString `gorm:"column:c23"`
	F24 []byte         `gorm:"column:c24"`
	F25 time.Time      `gorm:"column:c25"`
	F26 DV             `gorm:"column:c26"`
	F27 GV             `gorm:"column:c27"`
}
type W3 struct {
	F30 string         `gorm:"column:c30"`
	F31 int            `gorm:"column:c31"`
	F32 *string        `gorm:"column:c32"`
	F33 sql.NullString `gorm:"column:c33"`
	F34 []byte         `gorm:"column:c34"`
	F35 time.Time      `gorm:"column:c35"`
	F36 DV             `gorm:"column:c36"`
	F37 GV             `gorm:"column:c37"`
}

// NewCond returns a pointer to the condition struct of position p with the
// given fields set (column number -> value).
func NewCond(p int, set map[int]interface{}) interface{} {
	var v reflect.Value
	switch p {
	case 1:
		v = reflect.ValueOf(&W1{})
	case 2:
		v = reflect.ValueOf(&W2{})
	default:
		v = reflect.ValueOf(&W3{})
	}
	for col, val := range set {
		v.Elem().FieldByName(fmt.Sprintf("F%d", col)).Set(reflect.ValueOf(val))
	}
	return v.Interface()
}

// T2 is the joined / sub-queried table.
type T2 struct {
	ID   uint   `gorm:"column:id;primaryKey"`
	Name string `gorm:"column:name"`
	K1   string `gorm:"column:k1"`
}

func (T2) TableName() string { return "t2" }

// T is the plain model.
type T struct {
	ID uint `gorm:"column:id;primaryKey"`
	Cols
	OtherID uint `gorm:"column:other_id"`
	Other   *T2  `gorm:"foreignKey:OtherID"`
}

func (T) TableName() string { return "ts" }

// S is the model with tracked timestamps and soft delete.
type S struct {
	ID uint `gorm:"column:id;primaryKey"`
	Cols
	OtherID   uint           `gorm:"column:other_id"`
	Other     *T2            `gorm:"foreignKey:OtherID"`
	CreatedAt time.Time      `gorm:"column:created_at"`
	UpdatedAt time.Time      `gorm:"column:updated_at"`
	DeletedAt gorm.DeletedAt `gorm:"column:deleted_at"`
}

func (S) TableName() string { return "ss" }

// U is the model with value-transforming field kinds: integer tracked-time
// columns (seconds / milliseconds / nanoseconds, int64 and uint), serializer
// fields, default values (literal and database function) and pointer fields.
type U struct {
	ID uint `gorm:"column:id;primaryKey"`
	Cols
	OtherID     uint              `gorm:"column:other_id"`
	Other       *T2               `gorm:"foreignKey:OtherID"`
	CreatedAt   int64             `gorm:"column:created_at"`
	UpdatedAt   int64             `gorm:"column:updated_at;autoUpdateTime:milli"`
	TouchedNano int64             `gorm:"column:touched_nano;autoUpdateTime:nano"`
	MadeAt      uint              `gorm:"column:made_at;autoCreateTime"`
	MadeMilli   int64             `gorm:"column:made_milli;autoCreateTime:milli"`
	Tags        []string          `gorm:"column:tags;serializer:json"`
	Meta        map[string]string `gorm:"column:meta;serializer:json"`
	Stamp       int64             `gorm:"column:stamp;serializer:unixtime;type:datetime"`
	Code        string            `gorm:"column:code;default:abc"`
	Rank        int               `gorm:"column:rank;default:7"`
	UID         string            `gorm:"column:uid;default:(lower(hex(randomblob(4))))"`
	PInt        *int              `gorm:"column:p_int"`
	PTime       *time.Time        `gorm:"column:p_time"`
}

func (U) TableName() string { return "us" }

const (
	ModelT = 0
	ModelS = 1
	ModelU = 2
)

var TableOf = []string{"ts", "ss", "us"}
var ModelName = []string{"T", "S", "U"}

// NewPtr returns &T{} / &S{} / &U{} (U with its serializer and pointer fields set).
func NewPtr(m int) interface{} {
	switch m {
	case ModelT:
		return &T{}
	case ModelS:
		return &S{}
	}
	n := 3
	return &U{Tags: []string{"a", "b'c"}, PInt: &n, Stamp: 1600000000}
}

// NewSlicePtr returns &[]T{} / &[]S{} / &[]U{}.
func NewSlicePtr(m int) interface{} {
	switch m {
	case ModelT:
		return &[]T{}
	case ModelS:
		return &[]S{}
	}
	return &[]U{}
}

// NewRec returns a pointer to a record whose column fields are set from the
// map column-number -> value (values must have the field's type).
func NewRec(m int, id uint, set map[int]interface{}) interface{} {
	p := reflect.ValueOf(NewPtr(m))
	e := p.Elem()
	if id != 0 {
		e.FieldByName("ID").SetUint(uint64(id))
	}
	for col, v := range set {
		e.FieldByName(fmt.Sprintf("F%d", col)).Set(reflect.ValueOf(v))
	}
	return p.Interface()
}

// NewRecs returns a pointer to a slice of records.
func NewRecs(m int, sets ...map[int]interface{}) interface{} {
	sp := reflect.ValueOf(NewSlicePtr(m))
	s := sp.Elem()
	for _, set := range sets {
		s = reflect.Append(s, reflect.ValueOf(NewRec(m, 0, set)).Elem())
	}
	sp.Elem().Set(s)
	return sp.Interface()
}

func colType(j int) string {
	switch j {
	case 1:
		return "integer"
	case 4:
		return "blob"
	case 5:
		return "datetime"
	}
	return "text"
}

// SchemaSQL returns the CREATE TABLE statements for SQLite.
func SchemaSQL() []string {
	var cols []string
	for p := 1; p <= 4; p++ {
		for j := 0; j <= 9; j++ {
			cols = append(cols, fmt.Sprintf("c%d%d %s", p, j, colType(j)))
		}
	}
	cols = append(cols, "u49 text")
	c := strings.Join(cols, ", ")
	var q []string
	for i := 1; i <= 40; i++ {
		q = append(q, fmt.Sprintf("q%d text", i))
	}
	return []string{
		"CREATE TABLE ts (id integer primary key autoincrement, " + c + ", other_id integer)",
		"CREATE TABLE ss (id integer primary key autoincrement, " + c + ", other_id integer, created_at datetime, updated_at datetime, deleted_at datetime)",
		"CREATE TABLE us (id integer primary key autoincrement, " + c + ", other_id integer, created_at integer, updated_at integer, touched_nano integer, made_at integer, made_milli integer, tags text, meta text, stamp datetime, code text default 'abc', rank integer default 7, uid text default (lower(hex(randomblob(4)))), p_int integer, p_time datetime)",
		"CREATE TABLE t2 (id integer primary key autoincrement, name text, k1 text, " + strings.Join(q, ", ") + ")",
	}
}

// SeedSQL returns statements that put the tables into the pristine state.
func SeedSQL() []string {
	return []string{
		"DELETE FROM ts", "DELETE FROM ss", "DELETE FROM us", "DELETE FROM t2",
		"DELETE FROM sqlite_sequence",
		"INSERT INTO t2 (id,name,k1) VALUES (1,'o1','k'),(2,'o2','k')",
		"INSERT INTO ts (id,c10,c40,c41,other_id) VALUES (1,'r1','x',1,1),(2,'r2','y',2,2),(5,'r5','z',5,1)",
		"INSERT INTO us (id,c10,c40,c41,other_id,created_at,updated_at,touched_nano,made_at,made_milli,tags,stamp,uid) VALUES (1,'r1','x',1,1,1500000000,1500000000000,1500000000000000000,1500000000,1500000000000,'[\"s\"]','2019-01-01 00:00:00+00:00','u1'),(2,'r2','y',2,2,1500000000,1500000000000,1500000000000000000,1500000000,1500000000000,'null','2019-01-01 00:00:00+00:00','u2'),(5,'r5','z',5,1,1500000000,1500000000000,1500000000000000000,1500000000,1500000000000,'null','2019-01-01 00:00:00+00:00','u5')",
		"INSERT INTO ss (id,c10,c40,c41,other_id,created_at,updated_at,deleted_at) VALUES (1,'r1','x',1,1,'2019-01-01 00:00:00+00:00','2019-01-01 00:00:00+00:00',NULL),(2,'r2','y',2,2,'2019-01-01 00:00:00+00:00','2019-01-01 00:00:00+00:00',NULL),(5,'r5','z',5,1,'2019-01-01 00:00:00+00:00','2019-01-01 00:00:00+00:00',NULL),(6,'r6','w',6,1,'2019-01-01 00:00:00+00:00','2019-01-01 00:00:00+00:00','2019-06-01 00:00:00+00:00')",
	}
}
