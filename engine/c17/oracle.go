package main

import (
	"fmt"
	"strings"
)

// counters are summed over all transitions (non-vacuity evidence).
type counters struct {
	Transitions       int64 `json:"transitions"`
	Errors            int64 `json:"registration_errors_returned"`
	ErrorsAcyclic     int64 `json:"errors_on_acyclic_constraints"`
	Compiled          int64 `json:"compiled_without_error"`
	SideChecks        int64 `json:"named_side_constraints_checked"`
	StarChecks        int64 `json:"star_constraints_checked"`
	BuiltinPairs      int64 `json:"builtin_order_pairs_checked"`
	ReplacePos        int64 `json:"replace_position_checks"`
	ReplaceExisting   int64 `json:"replace_of_registered_name"`
	RemoveExisting    int64 `json:"remove_of_registered_name"`
	ReRegistered      int64 `json:"register_after_remove"`
	Executions        int64 `json:"pipeline_executions"`
	StubsFired        int64 `json:"stub_firings_observed"`
	FreshChecks       int64 `json:"fresh_open_crosschecks"`
	CyclicInputs      int64 `json:"inputs_with_cyclic_constraints"`
	NotExecuted       int64 `json:"inputs_not_executed"`
	Crashes           int64 `json:"worker_process_deaths"`
	StarContradictory int64 `json:"star_checks_skipped_contradictory_star_registrations"`
	DupRegistrations  int64 `json:"duplicate_registrations_without_replace"`
	SpellingVariants  int64 `json:"calls_re_executed_in_another_spelling"`
	IsolationChecks   int64 `json:"other_db_isolation_checks"`
	ExcusedAfterError int64 `json:"order_anomalies_excused_because_an_earlier_call_returned_an_error"`
	ReentrantRuns     int64 `json:"executions_with_a_registration_issued_from_inside_a_running_callback"`
}

func (c *counters) add(o *counters) {
	c.Transitions += o.Transitions
	c.Errors += o.Errors
	c.ErrorsAcyclic += o.ErrorsAcyclic
	c.Compiled += o.Compiled
	c.SideChecks += o.SideChecks
	c.StarChecks += o.StarChecks
	c.BuiltinPairs += o.BuiltinPairs
	c.ReplacePos += o.ReplacePos
	c.ReplaceExisting += o.ReplaceExisting
	c.RemoveExisting += o.RemoveExisting
	c.ReRegistered += o.ReRegistered
	c.Executions += o.Executions
	c.ReentrantRuns += o.ReentrantRuns
	c.StubsFired += o.StubsFired
	c.FreshChecks += o.FreshChecks
	c.CyclicInputs += o.CyclicInputs
	c.NotExecuted += o.NotExecuted
	c.Crashes += o.Crashes
	c.ExcusedAfterError += o.ExcusedAfterError
	c.DupRegistrations += o.DupRegistrations
	c.SpellingVariants += o.SpellingVariants
	c.IsolationChecks += o.IsolationChecks
	c.StarContradictory += o.StarContradictory
}

func (p *pipeCfg) orderString(order []ent) string {
	var s []string
	for _, e := range order {
		if e.Name < 0 {
			s = append(s, "<unknown func>")
		} else if e.Gen == 0 {
			s = append(s, p.names[e.Name])
		} else {
			s = append(s, fmt.Sprintf("%s#%d", p.names[e.Name], e.Gen))
		}
	}
	return "[" + strings.Join(s, " ") + "]"
}

// starSets: front = Before("*") callbacks and everything that must precede one
// of them; back = After("*") callbacks and everything that must follow one.
func (m *model) starSets(p *pipeCfg, c graph) (chkB, chkA, front, back uint16) {
	var starB, starA uint16
	star := p.iStar()
	n := len(p.names)
	for i := 0; i < n; i++ {
		if r := m.r[i]; r.on {
			if r.x == star {
				starB |= 1 << uint(i)
			}
			if r.y == star {
				starA |= 1 << uint(i)
			}
		}
	}
	front, back = starB, starA
	// chkB / chkA: the star is checked only when the callback has no named
	// constraint on the opposite side (gorm's own tests define
	// Before(x).After("*") as legal: "as late as x allows")
	for i := 0; i < n; i++ {
		if r := m.r[i]; r.on {
			if r.x == star && (r.y < 0 || r.y == star) {
				chkB |= 1 << uint(i)
			}
			if r.y == star && (r.x < 0 || r.x == star) {
				chkA |= 1 << uint(i)
			}
		}
	}
	for i := 0; i < n; i++ {
		if !m.r[i].on {
			continue
		}
		if c[i]&starB != 0 {
			front |= 1 << uint(i)
		}
		if starA&(1<<uint(i)) != 0 {
			back |= c[i]
		}
	}
	return
}

// check is the oracle for a call that returned no error: order is the
// compiled pipeline (name, generation). Returns "" when the property holds.
func (m *model) check(p *pipeCfg, order []ent, ctr *counters) (kind, detail string) {
	n := len(p.names)
	var pos [maxNames]int
	var cnt [maxNames]int
	for i := range pos {
		pos[i] = -1
	}
	for i, e := range order {
		if e.Name < 0 {
			return "compiled pipeline contains a function that was never registered", ""
		}
		r := m.r[e.Name]
		if !r.on {
			return "a removed / never registered callback fires", p.names[e.Name]
		}
		if r.dup {
			if r.gens&(1<<uint(e.Gen)) == 0 {
				return "a handler fires that is none of the registrations of a name registered twice", fmt.Sprintf("%s: generation %d", p.names[e.Name], e.Gen)
			}
			cnt[e.Name]++
			if cnt[e.Name] > 2 || (cnt[e.Name] == 2 && order[pos[e.Name]].Gen == e.Gen) {
				return "a callback fires more than once", p.names[e.Name]
			}
			pos[e.Name] = i
			continue
		}
		if e.Gen != r.gen {
			return "a stale handler fires (the latest Replace/Register of the name did not take effect)", fmt.Sprintf("%s: generation %d fires, expected %d", p.names[e.Name], e.Gen, r.gen)
		}
		cnt[e.Name]++
		if cnt[e.Name] > 1 {
			return "a callback fires more than once", p.names[e.Name]
		}
		pos[e.Name] = i
	}
	for i := 0; i < n; i++ {
		if m.r[i].on && cnt[i] == 0 {
			return "a registered, non-removed callback does not fire", p.names[i]
		}
	}
	star := p.iStar()
	// named constraints of the current registrations
	for i := 0; i < n; i++ {
		r := m.r[i]
		if !r.on || r.dup {
			continue // (a name registered twice: its own constraints are not checked)
		}
		if r.x >= 0 && r.x != star {
			if int(r.x) == i {
				return "a callback registered before/after itself was accepted", p.names[i]
			}
			if m.r[r.x].on && !m.r[r.x].dup {
				ctr.SideChecks++
				if !(pos[i] < pos[r.x]) {
					return "callback is not before the callback it names", fmt.Sprintf("%s registered Before(%s)", p.names[i], p.names[r.x])
				}
			}
		}
		if r.y >= 0 && r.y != star {
			if int(r.y) == i {
				return "a callback registered before/after itself was accepted", p.names[i]
			}
			if m.r[r.y].on && !m.r[r.y].dup {
				ctr.SideChecks++
				if !(pos[i] > pos[r.y]) {
					return "callback is not after the callback it names", fmt.Sprintf("%s registered After(%s)", p.names[i], p.names[r.y])
				}
			}
		}
	}
	// built-ins keep their original relative order
	last := -1
	for i := 0; i < p.nb; i++ {
		if m.r[i].on && m.r[i].builtin && !m.r[i].dup {
			if last >= 0 {
				ctr.BuiltinPairs++
				if !(pos[last] < pos[i]) {
					return "built-in callbacks lost their original relative order", fmt.Sprintf("%s now runs after %s", p.names[last], p.names[i])
				}
			}
			last = i
		}
	}
	// "*": ahead of / behind every callback that is not itself tied to the same end
	g := m.graph(p, true)
	c := g.closure(n)
	chkB, chkA, front, back := m.starSets(p, c)
	if (chkB != 0 || chkA != 0) && m.starContradictory(p) {
		ctr.StarContradictory++
	} else if chkB != 0 || chkA != 0 {
		for i := 0; i < n; i++ {
			if !m.r[i].on || m.r[i].dup {
				continue
			}
			bi := uint16(1) << uint(i)
			for j := 0; j < n; j++ {
				if j == i || !m.r[j].on || m.r[j].dup {
					continue
				}
				bj := uint16(1) << uint(j)
				if chkB&bi != 0 && front&bj == 0 {
					ctr.StarChecks++
					if !(pos[i] < pos[j]) {
						return `a Before("*") callback runs after a callback that is not tied to the front`, fmt.Sprintf("%s registered Before(\"*\") runs after %s", p.names[i], p.names[j])
					}
				}
				if chkA&bi != 0 && back&bj == 0 {
					ctr.StarChecks++
					if !(pos[i] > pos[j]) {
						return `an After("*") callback runs before a callback that is not tied to the back`, fmt.Sprintf("%s registered After(\"*\") runs before %s", p.names[i], p.names[j])
					}
				}
			}
		}
	}
	return "", ""
}

// checkReplacePosition: after Replace(n) of a registered name, n stands on the
// same side of every other callback as before the call.
func checkReplacePosition(p *pipeCfg, n int8, before, after []ent) (kind, detail string) {
	side := func(order []ent) (map[int8]bool, bool) {
		at := -1
		for i, e := range order {
			if e.Name == n {
				at = i
			}
		}
		if at < 0 {
			return nil, false
		}
		s := map[int8]bool{}
		for i, e := range order {
			if e.Name != n {
				s[e.Name] = i < at
			}
		}
		return s, true
	}
	sb, ok1 := side(before)
	sa, ok2 := side(after)
	if !ok1 || !ok2 {
		return "", ""
	}
	for k, v := range sb {
		if w, ok := sa[k]; ok && w != v {
			return "Replace moved the replaced callback", fmt.Sprintf("%s changed sides relative to %s: before the call %s, after it %s", p.names[n], p.names[k], p.orderString(before), p.orderString(after))
		}
	}
	return "", ""
}

// tagsStar adds the input-side tag for star constraints that cannot be
// satisfied together with the named constraints.
func (m *model) tagsStar(p *pipeCfg) []string {
	n := len(p.names)
	g := m.graph(p, true)
	if g.cyclic(n) {
		return nil
	}
	c := g.closure(n)
	chkB, chkA, front, back := m.starSets(p, c)
	if chkB == 0 && chkA == 0 {
		return nil
	}
	for i := 0; i < n; i++ {
		if !m.r[i].on {
			continue
		}
		bi := uint16(1) << uint(i)
		for j := 0; j < n; j++ {
			if j == i || !m.r[j].on {
				continue
			}
			bj := uint16(1) << uint(j)
			if chkB&bi != 0 && front&bj == 0 {
				g[i] |= bj
			}
			if chkA&bi != 0 && back&bj == 0 {
				g[j] |= bi
			}
		}
	}
	if g.cyclic(n) {
		return []string{"star-constraints-unsatisfiable"}
	}
	return nil
}
