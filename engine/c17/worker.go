package main

// Worker sub-process: executes jobs (expand one state with every operation of
// an alphabet; or replay one sequence on a freshly opened gorm). It may die
// with `fatal error: stack overflow` inside gorm's sorter, therefore it
// journals (shared memory mapping of a file) which operation it is about to
// run; the parent turns a dead worker into a violation.

import (
	"bufio"
	"encoding/binary"
	"encoding/json"
	"fmt"
	"hash/fnv"
	"os"
	"runtime/debug"
	"runtime/pprof"
	"strings"
	"syscall"
)

const workerFlag = "--c17-worker"

type jobMsg struct {
	ID       int64    `json:"id"`
	Pipe     int      `json:"pipe"`
	Init     int      `json:"init"`
	Path     []Op     `json:"path"`
	Alpha    string   `json:"alpha"`
	Final    bool     `json:"final"`               // successors are leaves: no keys needed
	Skip     []int    `json:"skip,omitempty"`      // operation indexes that killed a worker before
	SkipTags []string `json:"skip_tags,omitempty"` // input classes not executed any more (confirmed process-killing)
	Replay   bool     `json:"replay,omitempty"`    // run Path itself on a fresh gorm and report every step
	Quit     bool     `json:"quit,omitempty"`
}

const (
	stOK        = 0
	stError     = 1
	stViolation = 2
	stSkipped   = 3
)

type succMsg struct {
	I   int    `json:"i"`
	Key string `json:"k,omitempty"`
	St  int    `json:"s"`
}

type violMsg struct {
	Op   *Op      `json:"op,omitempty"` // the call as executed when it differs from the enumerated one (spelling)
	I    int      `json:"i"`
	Msg  string   `json:"msg"`
	Tags []string `json:"tags"`
}

type resultMsg struct {
	ID         int64          `json:"id"`
	NOps       int            `json:"nops"`
	Succ       []succMsg      `json:"succ,omitempty"`
	Viols      []violMsg      `json:"viols,omitempty"`
	NViol      int            `json:"nviol"`
	Ctr        counters       `json:"ctr"`
	Samples    []string       `json:"samples,omitempty"`
	SkippedTag map[string]int `json:"skipped_tag,omitempty"`
	HarnessErr string         `json:"harness_err,omitempty"`
	Steps      []string       `json:"steps,omitempty"` // replay mode: readable account of every step
	Excused    []string       `json:"excused,omitempty"`
}

type stepResult struct {
	Err    string
	Panic  string
	Order  []ent
	FnsNil bool
	Kind   string
	Detail string
	Fired  []ent
	Cyclic bool
	// Excused: the oracle found Kind/Detail but an earlier call of the sequence
	// had returned an error ("either an error is returned, or ...")
	Excused bool
}

func errString(err error) string {
	if err == nil {
		return ""
	}
	return err.Error()
}

// step performs op o on the real pipeline r (which must be in the state that
// corresponds to model m), observes and evaluates the oracle.
func (r *rt) step(m *model, o Op, gen int8, prev []ent, prevValid, priorErr bool, ctr *counters) (m2 model, res stepResult) {
	p := r.cfg
	ctr.Transitions++
	switch {
	case o.K == kReplace && m.r[o.N].on:
		ctr.ReplaceExisting++
	case o.K == kRemove && m.r[o.N].on:
		ctr.RemoveExisting++
	case o.K == kRegister && m.r[o.N].on:
		ctr.DupRegistrations++
	case o.K == kRegister && p.isB(o.N):
		ctr.ReRegistered++
	}
	err, pan := r.apply(o, gen)
	m2 = *m
	m2.apply(p, o, gen)
	res.Cyclic = m2.graph(p, true).cyclic(len(p.names))
	if res.Cyclic {
		ctr.CyclicInputs++
	}
	res.Err, res.Panic = errString(err), pan
	ctr.IsolationChecks++
	if iso := r.isolation(); iso != "" {
		res.Kind, res.Detail = "registration calls on one DB affect the pipelines of another DB", iso
		return
	}
	if pan != "" {
		res.Kind, res.Detail = "panic inside the registration call", pan
		return
	}
	if err != nil {
		ctr.Errors++
		if !res.Cyclic {
			ctr.ErrorsAcyclic++
		}
		return
	}
	ctr.Compiled++
	defer func() {
		if res.Kind != "" && priorErr && !strings.HasPrefix(res.Kind, "panic") {
			res.Excused = true
			ctr.ExcusedAfterError++
		}
	}()
	order, _, isNil := r.compiled()
	res.Order, res.FnsNil = order, isNil
	if res.Kind, res.Detail = m2.check(p, order, ctr); res.Kind != "" {
		return
	}
	if o.K == kReplace && m.r[o.N].on && !m.r[o.N].dup && prevValid {
		ctr.ReplacePos++
		if res.Kind, res.Detail = checkReplacePosition(p, o.N, prev, order); res.Kind != "" {
			return
		}
	}
	// behavioural observation: the stubs that fire when the pipeline runs
	fired, pan := r.run()
	ctr.Executions++
	ctr.StubsFired += int64(len(fired))
	res.Fired = fired
	if pan != "" {
		res.Kind, res.Detail = "panic while executing the pipeline", pan
		return
	}
	var want []ent
	for _, e := range order {
		if r.init == initPristine && e.Gen == 0 && p.isB(e.Name) {
			continue // original default callback: does not log
		}
		want = append(want, e)
	}
	same := len(want) == len(fired)
	for i := 0; same && i < len(want); i++ {
		same = want[i] == fired[i]
	}
	if !same {
		res.Kind = "callbacks that fire when the pipeline executes differ from the compiled list"
		res.Detail = fmt.Sprintf("fired %s, compiled (stubs only) %s", p.orderString(fired), p.orderString(want))
		return
	}
	// registration issued from inside a running callback of the same pipeline:
	// the run in progress still fires every callback of its list exactly once
	ks := []int{0, len(fired) / 2, len(fired) - 1}
	for j, k := range ks {
		if k < 0 || k >= len(fired) || (j > 0 && k == ks[j-1]) {
			continue
		}
		for _, remove := range []bool{false, true} {
			again, pan := r.runReentrant(k, remove)
			ctr.ReentrantRuns++
			what := "Before(\"*\").Register of a new callback"
			if remove {
				what = "Remove of the firing callback"
			}
			if pan != "" {
				res.Kind, res.Detail = "panic while executing the pipeline", fmt.Sprintf("%s issued from inside firing #%d: %s", what, k, pan)
				return
			}
			eq := len(again) == len(fired)
			for i := 0; eq && i < len(fired); i++ {
				eq = again[i] == fired[i]
			}
			if !eq {
				res.Kind = "a registration call issued from inside a running callback changes what the run in progress fires"
				res.Detail = fmt.Sprintf("%s issued from inside firing #%d: the run fired %s, a plain run fires %s", what, k, p.orderString(again), p.orderString(fired))
				return
			}
		}
	}
	return
}

func (p *pipeCfg) describe(init int, path []Op, res stepResult, listing string) string {
	s := fmt.Sprintf("pipeline=%s initial=%s\n  calls: %s\n", p.Name, initNames[init], p.pathString(path))
	if res.Err != "" {
		s += "  last call returned error: " + res.Err + "\n"
	} else {
		s += "  last call returned nil\n"
	}
	if res.Detail != "" {
		s += "  " + res.Detail + "\n"
	}
	if res.Err == "" && res.Panic == "" {
		s += "  compiled pipeline: " + p.orderString(res.Order) + "\n"
	}
	if listing != "" {
		s += "  registered callback list:\n" + listing
	}
	return s
}

// fresh runs a whole sequence on a newly opened gorm, evaluating every step.
func freshRun(cfg *pipeCfg, init int, path []Op, ctr *counters, journal func(int)) (results []stepResult, key string, r *rt, err error) {
	r, err = newRT(cfg, init)
	if err != nil {
		return
	}
	m := initialModel(cfg)
	prev, _, _ := r.compiled()
	prevValid, priorErr := true, false
	for i, o := range path {
		if journal != nil {
			journal(i)
		}
		var res stepResult
		m, res = r.step(&m, o, int8(i+1), prev, prevValid, priorErr, ctr)
		results = append(results, res)
		prev, prevValid = res.Order, res.Err == "" && res.Panic == ""
		priorErr = priorErr || res.Err != ""
	}
	key = string(r.appendStateKey(nil)) + "#" + m.key(cfg)
	return
}

type worker struct {
	cfgs     []*pipeCfg
	alphas   map[string][]*alphabet // label -> per pipeline
	rts      [][2]*rt
	journal  []byte
	hashOut  *bufio.Writer
	outSeen  map[uint64]bool
	nTrans   int64
	nConfirm int
	opsBuf   []Op
	keyBuf   []byte
}

func hash64(tag byte, s string) uint64 {
	h := fnv.New64a()
	h.Write([]byte{tag})
	h.Write([]byte(s))
	return h.Sum64()
}

func (w *worker) emitHash(tag byte, h uint64) {
	if w.hashOut == nil {
		return
	}
	var b [9]byte
	b[0] = tag
	binary.LittleEndian.PutUint64(b[1:], h)
	w.hashOut.Write(b[:])
}

func (w *worker) setJournal(job int64, op int) {
	if w.journal != nil {
		binary.LittleEndian.PutUint64(w.journal[0:8], uint64(job))
		binary.LittleEndian.PutUint64(w.journal[8:16], uint64(op+1))
	}
}

func workerMain() {
	debug.SetMaxStack(2 << 20)
	// tiny live heap, high allocation rate: collect only when 384 MB have piled up
	debug.SetGCPercent(-1)
	debug.SetMemoryLimit(384 << 20)
	if pf := os.Getenv("C17_PROF"); pf != "" {
		f, _ := os.Create(pf)
		pprof.StartCPUProfile(f)
		defer pprof.StopCPUProfile()
	}
	w := &worker{outSeen: map[uint64]bool{}}
	out := bufio.NewWriter(os.Stdout)
	fail := func(format string, a ...interface{}) {
		b, _ := json.Marshal(resultMsg{ID: -1, HarnessErr: fmt.Sprintf(format, a...)})
		out.Write(append(b, '\n'))
		out.Flush()
		os.Exit(3)
	}
	if err := verifyLayout(); err != nil {
		fail("%v", err)
	}
	w.cfgs, w.alphas = buildConfigs()
	if jp := os.Getenv("C17_JOURNAL"); jp != "" {
		f, err := os.OpenFile(jp, os.O_RDWR|os.O_CREATE, 0o644)
		if err != nil {
			fail("journal: %v", err)
		}
		f.Truncate(4096)
		w.journal, err = syscall.Mmap(int(f.Fd()), 0, 4096, syscall.PROT_READ|syscall.PROT_WRITE, syscall.MAP_SHARED)
		if err != nil {
			fail("journal mmap: %v", err)
		}
		w.setJournal(0, -1)
	}
	if hp := os.Getenv("C17_HASHES"); hp != "" {
		f, err := os.OpenFile(hp, os.O_WRONLY|os.O_CREATE|os.O_APPEND, 0o644)
		if err != nil {
			fail("hash file: %v", err)
		}
		w.hashOut = bufio.NewWriterSize(f, 1<<16)
	}
	w.rts = make([][2]*rt, len(w.cfgs))
	in := bufio.NewReaderSize(os.Stdin, 1<<20)
	for {
		line, err := in.ReadBytes('\n')
		if err != nil {
			return
		}
		var job jobMsg
		if err := json.Unmarshal(line, &job); err != nil {
			fail("bad job: %v", err)
		}
		if job.Quit {
			return
		}
		var res resultMsg
		if job.Replay {
			res = w.replay(&job)
		} else {
			res = w.expand(&job)
		}
		if w.hashOut != nil {
			w.hashOut.Flush()
		}
		w.setJournal(job.ID, -1)
		b, _ := json.Marshal(res)
		out.Write(append(b, '\n'))
		out.Flush()
	}
}

func (w *worker) rt(pipe, init int) (*rt, error) {
	if w.rts[pipe][init] == nil {
		r, err := newRT(w.cfgs[pipe], init)
		if err != nil {
			return nil, err
		}
		w.rts[pipe][init] = r
	}
	return w.rts[pipe][init], nil
}

func (w *worker) replay(job *jobMsg) resultMsg {
	cfg := w.cfgs[job.Pipe]
	res := resultMsg{ID: job.ID, NOps: len(job.Path)}
	steps, _, r, err := freshRun(cfg, job.Init, job.Path, &res.Ctr, func(i int) { w.setJournal(job.ID, i) })
	if err != nil {
		res.HarnessErr = err.Error()
		return res
	}
	m := initialModel(cfg)
	for i, s := range steps {
		m.apply(cfg, job.Path[i], int8(i+1))
		line := fmt.Sprintf("step %d: %s -> ", i+1, cfg.opString(job.Path[i]))
		switch {
		case s.Panic != "":
			line += "PANIC " + s.Panic
		case s.Err != "":
			line += "error: " + s.Err
		default:
			line += "nil; compiled " + cfg.orderString(s.Order)
		}
		if s.Kind != "" && s.Excused {
			line += "\n   (not counted: an earlier call had returned an error) " + s.Kind + " — " + s.Detail
		} else if s.Kind != "" {
			line += "\n   VIOLATES: " + s.Kind + " — " + s.Detail
			tags := m.tags(cfg)
			res.Viols = append(res.Viols, violMsg{I: i, Msg: s.Kind + "\n" + cfg.describe(job.Init, job.Path[:i+1], s, ""), Tags: tags})
			res.NViol++
		}
		res.Steps = append(res.Steps, line)
	}
	res.Steps = append(res.Steps, "registered callback list at the end:\n"+r.listing())
	return res
}

func has(l []int, x int) bool {
	for _, v := range l {
		if v == x {
			return true
		}
	}
	return false
}

func intersects(a, b []string) string {
	for _, x := range a {
		for _, y := range b {
			if x == y {
				return x
			}
		}
	}
	return ""
}

func orderHash(h uint64, order []ent) uint64 {
	for _, e := range order {
		h = (h ^ uint64(uint8(e.Name))) * 1099511628211
		h = (h ^ uint64(uint8(e.Gen))) * 1099511628211
	}
	return h
}

func bytesHash(h uint64, b []byte) uint64 {
	for _, c := range b {
		h = (h ^ uint64(c)) * 1099511628211
	}
	return h
}

// expand: bring the pipeline into the state reached by job.Path, then apply
// every operation of the alphabet to (a restored copy of) that state.
func (w *worker) expand(job *jobMsg) resultMsg {
	res := resultMsg{ID: job.ID}
	cfg := w.cfgs[job.Pipe]
	r, err := w.rt(job.Pipe, job.Init)
	if err != nil {
		res.HarnessErr = err.Error()
		return res
	}
	alpha := w.alphas[job.Alpha][job.Pipe]
	var scratch counters
	// replay the prefix (these calls were executed before, without the process dying)
	w.setJournal(job.ID, -2)
	r.restore(r.initial)
	m := initialModel(cfg)
	prev, _, _ := r.compiled()
	prevValid, priorErr := true, false
	for i, o := range job.Path {
		var s stepResult
		m, s = r.step(&m, o, int8(i+1), prev, prevValid, priorErr, &scratch)
		prev, prevValid = s.Order, s.Err == "" && s.Panic == ""
		priorErr = priorErr || s.Err != ""
	}
	base := r.take()
	gen := int8(len(job.Path) + 1)
	w.opsBuf = alpha.ops(cfg, &m, w.opsBuf)
	ops := w.opsBuf
	res.NOps = len(ops)
	path := append(append([]Op{}, job.Path...), Op{})
	skipCyclic := has2(job.SkipTags, cyclicTag)
	seed := uint64(14695981039346656037) ^ uint64(job.Pipe*2+job.Init+1)*0x9E3779B97F4A7C15
	for j, o := range ops {
		if has(job.Skip, j) {
			continue
		}
		if skipCyclic {
			m2 := m
			m2.apply(cfg, o, gen)
			if m2.userCyclic(cfg) {
				res.Ctr.NotExecuted++
				if res.SkippedTag == nil {
					res.SkippedTag = map[string]int{}
				}
				res.SkippedTag[cyclicTag]++
				continue
			}
		}
		w.setJournal(job.ID, j)
		r.restore(base)
		m2, s := r.step(&m, o, gen, prev, prevValid, priorErr, &res.Ctr)
		w.nTrans++
		path[len(path)-1] = o
		st := stOK
		if s.Err != "" {
			st = stError
		}
		w.keyBuf = r.appendStateKey(w.keyBuf[:0])
		w.keyBuf = append(w.keyBuf, '#')
		for _, e := range s.Order {
			w.keyBuf = append(w.keyBuf, byte('a'+e.Name), byte('0'+e.Gen))
		}
		w.keyBuf = append(w.keyBuf, '#')
		w.keyBuf = m2.appendKey(cfg, w.keyBuf)
		if s.Kind != "" && !s.Excused {
			st = stViolation
			res.NViol++
			if len(res.Viols) < 3 {
				msg := s.Kind + "\n" + cfg.describe(job.Init, path, s, r.listing())
				// confirm on a freshly opened gorm before reporting
				if w.nConfirm < 200 {
					w.nConfirm++
					fs, _, _, ferr := freshRun(cfg, job.Init, path, &scratch, nil)
					if ferr != nil || len(fs) != len(path) || fs[len(fs)-1].Kind != s.Kind {
						res.HarnessErr = fmt.Sprintf("violation not reproduced on a fresh gorm.Open: %s: %s", cfg.pathString(path), s.Kind)
					}
				}
				res.Viols = append(res.Viols, violMsg{I: j, Msg: msg, Tags: m2.tags(cfg)})
			}
		} else if s.Excused {
			if len(res.Excused) < 1 {
				res.Excused = append(res.Excused, fmt.Sprintf("%s/%s: %s => %s: %s (%s)", cfg.Name, initNames[job.Init], cfg.pathString(path), cfg.orderString(s.Order), s.Kind, s.Detail))
			}
		} else if w.nTrans%499 == 0 {
			// cross-check the snapshot/restore shortcut against a fresh gorm.Open
			res.Ctr.FreshChecks++
			fs, fkey, _, ferr := freshRun(cfg, job.Init, path, &scratch, nil)
			if ferr != nil || len(fs) != len(path) {
				res.HarnessErr = fmt.Sprintf("fresh replay failed: %v", ferr)
			} else if l := fs[len(fs)-1]; l.Err != s.Err || cfg.orderString(l.Order) != cfg.orderString(s.Order) || fkey != string(r.appendStateKey(nil))+"#"+m2.key(cfg) {
				res.HarnessErr = fmt.Sprintf("restored state diverges from a fresh gorm.Open for %s: err %q vs %q, order %s vs %s", cfg.pathString(path), s.Err, l.Err, cfg.orderString(s.Order), cfg.orderString(l.Order))
			}
		}
		if !job.Final && s.Kind == "" && s.Panic == "" {
			// non-leaf levels: the same call in its other spellings, the same call on
			// the other DBs, and the handles of the same DB
			if v := w.variants(r, job, cfg, &m, o, gen, base, prev, prevValid, priorErr, s, path, &res); v != nil {
				st = stViolation
				res.NViol++
				if len(res.Viols) < 3 {
					res.Viols = append(res.Viols, *v)
					res.Viols[len(res.Viols)-1].I = j
				}
			}
		}
		w.emitHash('S', bytesHash(seed, w.keyBuf))
		oh := orderHash(seed, s.Order)
		if s.Err != "" {
			oh = bytesHash(seed, []byte(s.Err))
		}
		if !w.outSeen[oh] {
			w.outSeen[oh] = true
			w.emitHash('O', oh)
			if len(res.Samples) < 2 && s.Err == "" && s.Kind == "" {
				res.Samples = append(res.Samples, fmt.Sprintf("%s/%s: %s => %s", cfg.Name, initNames[job.Init], cfg.pathString(path), cfg.orderString(s.Order)))
			}
		}
		if !job.Final {
			res.Succ = append(res.Succ, succMsg{I: j, Key: string(w.keyBuf), St: st})
		}
	}
	return res
}

func has2(l []string, x string) bool {
	for _, v := range l {
		if v == x {
			return true
		}
	}
	return false
}

// variants re-executes a call that passed, from the same state: (i) in every
// other spelling (After(y).Before(x), Match(true)...): full oracle, and the
// result must equal the canonical spelling's (error, compiled order, registered
// list apart from the match function); (ii) on the other DBs: r.db's pipeline
// must not change; (iii) Session/WithContext handles share r.db's pipelines.
func (w *worker) variants(r *rt, job *jobMsg, cfg *pipeCfg, m *model, o Op, gen int8, base snap, prev []ent, prevValid, priorErr bool, canon stepResult, path []Op, res *resultMsg) *violMsg {
	canonList := string(appendProcKey(nil, r.a.proc, true))
	mk := func(op Op, kind, detail string, s stepResult) *violMsg {
		p2 := append(append([]Op{}, path[:len(path)-1]...), op)
		m2 := *m
		m2.apply(cfg, op, gen)
		s.Detail = detail
		return &violMsg{Msg: kind + "\n" + cfg.describe(job.Init, p2, s, r.listing()), Tags: m2.tags(cfg), Op: &op}
	}
	for _, sp := range spellings(o) {
		if m.r[o.N].on {
			break // duplicate registration: canonical spelling only
		}
		o2 := o
		o2.S = sp
		r.restore(base)
		res.Ctr.SpellingVariants++
		_, s2 := r.step(m, o2, gen, prev, prevValid, priorErr, &res.Ctr)
		if s2.Kind != "" && !s2.Excused {
			return mk(o2, s2.Kind, s2.Detail, s2)
		}
		list := string(appendProcKey(nil, r.a.proc, true))
		if s2.Err != canon.Err || cfg.orderString(s2.Order) != cfg.orderString(canon.Order) || list != canonList {
			return mk(o2, "the same registration written in another spelling gives a different pipeline", fmt.Sprintf("%s gives error %q, compiled %s; %s gives error %q, compiled %s", cfg.opString(o), canon.Err, cfg.orderString(canon.Order), cfg.opString(o2), s2.Err, cfg.orderString(s2.Order)), s2)
		}
	}
	m2 := *m
	m2.apply(cfg, o, gen)
	if !m2.userCyclic(cfg) {
		r.restore(base)
		res.Ctr.IsolationChecks++
		if d := r.reverseIsolation(o, gen); d != "" {
			return mk(o, "registration calls on one DB affect the pipelines of another DB", d, canon)
		}
	}
	if d := r.handlesShare(); d != "" {
		return mk(o, "handles of one DB do not share its pipelines", d, canon)
	}
	return nil
}
