package main

import "fmt"

// countMain (hidden flag --c17-count): sizes of the sequence tree per alphabet, model only.
func countNodes(p *pipeCfg, a *alphabet, m model, d, max int, nodes []int64, buf [][]Op) {
	buf[d] = a.ops(p, &m, buf[d])
	for _, o := range buf[d] {
		m2 := m
		m2.apply(p, o, int8(d+1))
		nodes[d+1]++
		if d+1 < max && !m2.userCyclic(p) {
			countNodes(p, a, m2, d+1, max, nodes, buf)
		}
	}
}

func countMain() {
	cfgs, _ := buildConfigs()
	for _, p := range cfgs {
		for _, a := range []*alphabet{
			reducedAlphabet(p, "3b2u+zz*c", 3, 2, true, true, true),
			reducedAlphabet(p, "3b3u+zz*c", 3, 3, true, true, true),
			reducedAlphabet(p, "2b3u+*c", 2, 3, false, true, true),
			reducedAlphabet(p, "2b2u+*c", 2, 2, false, true, true),
			reducedAlphabet(p, "allb3u+zz*nocombo", 99, 3, true, true, false),
		} {
			nodes := make([]int64, 6)
			countNodes(p, a, initialModel(p), 0, 4, nodes, make([][]Op, 6))
			fmt.Println(p.Name, a.Label, nodes)
		}
	}
}
