// C17 — callback registration honours Before/After and never disturbs the
// built-in order.
//
// Explicit-state search (E3) over registration sequences, executed on the
// real gorm registration/compile/sort code of a database-less gorm.Open.
// The parent process runs a breadth-first search with state de-duplication;
// every expansion is executed by worker sub-processes (worker.go) because
// gorm's sorter can die with an unrecoverable `fatal error: stack overflow`.
//
// Files: model.go (names, operations, alphabets, reference model, input-side
// tags), oracle.go (the property), gormrt.go (real pipelines: dialector,
// reflection/unsafe mirrors, stubs, observations), worker.go (sub-process),
// count.go (hidden flag --c17-count: tree sizes), repro/ (minimal replay files
// of the defects found), candidate-fix.diff (NOT applied to /repo; with it the
// quick and thorough tiers pass with an empty known-findings list).
//
// Input-side tags (known_findings.json):
//
//	cyclic-before-after-constraints[:<edge kinds>]  named constraints of the current registrations contain a cycle
//	replace-of-callback-registered-with-star        a callback registered Before("*")/After("*") was Replace'd
//	before-names-later-sorted-callback-that-has-its-own-after
//	name-registered-again-after-remove-while-callback-named-by-its-old-constraint-remains
//	constraints-cyclic-with-builtin-order, star-constraints-unsatisfiable   (informational)
package main

import (
	"bufio"
	"bytes"
	"crypto/sha256"
	"encoding/binary"
	"encoding/json"
	"fmt"
	"io"
	"os"
	"os/exec"
	"path/filepath"
	"sort"
	"strconv"
	"strings"
	"sync"
	"sync/atomic"
	"time"

	"verif/mc"
)

// tier bounds: every sequence over the full alphabet up to fullDepth, and
// every sequence over the reduced alphabet up to redDepth.
type tierCfg struct {
	fullDepth int
	redDepth  int
	red       string // label of the reduced alphabet
	redDesc   string
}

var tiers = map[string]tierCfg{
	"quick":    {fullDepth: 2, redDepth: 3, red: "red3u", redDesc: "at most 3 built-ins (first, middle, last), u1, u2, u3, zz, \"*\", all six call shapes"},
	"thorough": {fullDepth: 3, redDepth: 4, red: "red2u", redDesc: "at most 3 built-ins (first, middle, last), u1, u2, zz, \"*\", all six call shapes"},
}

func buildConfigs() ([]*pipeCfg, map[string][]*alphabet) {
	bn := builtinNames()
	var cfgs []*pipeCfg
	alphas := map[string][]*alphabet{}
	for _, pn := range pipelineNames {
		c := newPipeCfg(pn, bn[pn])
		cfgs = append(cfgs, c)
		alphas["full"] = append(alphas["full"], fullAlphabet(c))
		alphas["red2u"] = append(alphas["red2u"], reducedAlphabet(c, "red2u", 3, 2, true, true, true))
		alphas["red3u"] = append(alphas["red3u"], reducedAlphabet(c, "red3u", 3, 3, true, true, true))
	}
	return cfgs, alphas
}

// Case is the replay format.
type Case struct {
	Pipeline string `json:"pipeline"`
	Initial  string `json:"initial"`
	Ops      []ROp  `json:"ops"`
	Readable string `json:"readable,omitempty"`
}

func makeCase(c *pipeCfg, init int, path []Op) Case {
	cs := Case{Pipeline: c.Name, Initial: initNames[init], Readable: c.pathString(path)}
	for _, o := range path {
		cs.Ops = append(cs.Ops, c.readable(o))
	}
	return cs
}

// ---------------------------------------------------------------------------
// worker slots

type slot struct {
	id      int
	dir     string
	cmd     *exec.Cmd
	in      io.WriteCloser
	out     *bufio.Reader
	stderr  *bytes.Buffer
	journal string
}

func (s *slot) start() error {
	s.journal = filepath.Join(s.dir, fmt.Sprintf("journal-%d", s.id))
	os.WriteFile(s.journal, make([]byte, 4096), 0o644)
	s.cmd = exec.Command(os.Args[0], workerFlag)
	s.cmd.Env = append(os.Environ(), "GOTRACEBACK=none", "GOMAXPROCS=2",
		"C17_JOURNAL="+s.journal, "C17_HASHES="+filepath.Join(s.dir, fmt.Sprintf("hashes-%d", s.id)))
	var err error
	if s.in, err = s.cmd.StdinPipe(); err != nil {
		return err
	}
	op, err := s.cmd.StdoutPipe()
	if err != nil {
		return err
	}
	s.out = bufio.NewReaderSize(op, 1<<20)
	s.stderr = &bytes.Buffer{}
	s.cmd.Stderr = s.stderr
	return s.cmd.Start()
}

func (s *slot) stop() {
	if s.cmd == nil {
		return
	}
	s.in.Close()
	s.cmd.Wait()
	s.cmd = nil
}

// call sends one job; died=true when the worker process ended instead of answering.
func (s *slot) call(job *jobMsg) (res resultMsg, died bool, diedOp int, stderr string, err error) {
	if s.cmd == nil {
		if err = s.start(); err != nil {
			return
		}
	}
	b, _ := json.Marshal(job)
	if _, werr := s.in.Write(append(b, '\n')); werr == nil {
		line, rerr := s.out.ReadBytes('\n')
		if rerr == nil {
			err = json.Unmarshal(line, &res)
			return
		}
	}
	// the worker is gone
	s.in.Close()
	s.cmd.Wait()
	s.cmd = nil
	stderr = strings.TrimSpace(s.stderr.String())
	if i := strings.Index(stderr, "\n\n"); i > 0 {
		stderr = stderr[:i] // keep "goroutine stack exceeds ... / fatal error: stack overflow", drop the traceback
	}
	if len(stderr) > 400 {
		stderr = stderr[:400]
	}
	jb, _ := os.ReadFile(s.journal)
	died = true
	diedOp = -100
	if len(jb) >= 16 && int64(binary.LittleEndian.Uint64(jb[0:8])) == job.ID {
		diedOp = int(int64(binary.LittleEndian.Uint64(jb[8:16]))) - 1
	}
	return
}

// ---------------------------------------------------------------------------

type state struct {
	pipe, init int
	path       []Op
	inRed      bool
}

type explorer struct {
	run          *mc.Run
	tier         tierCfg
	cfgs         []*pipeCfg
	alphas       map[string][]*alphabet
	dir          string
	budget       int
	mu           sync.Mutex
	ctr          counters
	samples      *mc.Samples
	excused      *mc.Samples
	crashByTag   map[string]int
	skipTags     map[string]bool
	skippedByTag map[string]int
	nViol        int64
	harnessErrs  []string
	kinds        map[string]int
	jobSeq       int64
	expanded     int64
	stop         atomic.Bool
	deadline     time.Time
	timedOut     atomic.Bool
}

func (e *explorer) skipTagList(pipe, init int) []string {
	e.mu.Lock()
	defer e.mu.Unlock()
	var l []string
	pre := fmt.Sprintf("%d/%d/", pipe, init)
	for t := range e.skipTags {
		if strings.HasPrefix(t, pre) {
			l = append(l, strings.TrimPrefix(t, pre))
		}
	}
	sort.Strings(l)
	return l
}

const cyclicTag = "cyclic-before-after-constraints"

// crashClass: process deaths are budgeted per (pipeline, initial state) for
// inputs whose named constraints contain a cycle.
func crashClass(tags []string) string {
	for _, t := range tags {
		if t == cyclicTag {
			return t
		}
	}
	return ""
}

// expandState runs one state on a slot, handling worker deaths.
func (e *explorer) expandState(s *slot, st state, alpha string, final bool) (succ []succMsg, ops []Op) {
	cfg := e.cfgs[st.pipe]
	e.mu.Lock()
	e.jobSeq++
	id := e.jobSeq
	e.mu.Unlock()
	job := &jobMsg{ID: id, Pipe: st.pipe, Init: st.init, Path: st.path, Alpha: alpha, Final: final}
	// the parent computes the same operation list (for crash attribution and successor paths)
	m := initialModel(cfg)
	for i, o := range st.path {
		m.apply(cfg, o, int8(i+1))
	}
	ops = e.alphas[alpha][st.pipe].ops(cfg, &m, nil)
	for attempt := 0; ; attempt++ {
		job.SkipTags = e.skipTagList(st.pipe, st.init)
		res, died, diedOp, stderr, err := s.call(job)
		if err != nil {
			e.harness("worker protocol: %v", err)
			return nil, ops
		}
		if died {
			if diedOp < 0 || diedOp >= len(ops) || attempt > len(ops) {
				e.harness("worker died outside an operation (journal op %d) on %s/%s %s: %s", diedOp, cfg.Name, initNames[st.init], cfg.pathString(st.path), stderr)
				return nil, ops
			}
			o := ops[diedOp]
			path := append(append([]Op{}, st.path...), o)
			m2 := m
			m2.apply(cfg, o, int8(len(path)))
			tags := m2.tags(cfg)
			kind := "the registration call kills the process"
			if strings.Contains(stderr, "stack overflow") {
				kind += " (fatal error: stack overflow)"
			}
			msg := kind + "\n" + fmt.Sprintf("pipeline=%s initial=%s\n  calls: %s\n  expected: an error is returned, or the pipeline is compiled\n  observed: worker process died: %s", cfg.Name, initNames[st.init], cfg.pathString(path), stderr)
			e.mu.Lock()
			e.ctr.Crashes++
			e.ctr.Transitions++
			e.ctr.CyclicInputs++
			if e.ctr.Crashes > 20000 {
				e.stop.Store(true) // something kills workers wholesale: stop, the violations are reported
			}
			if nt := crashClass(tags); nt != "" {
				k := fmt.Sprintf("%d/%d/%s", st.pipe, st.init, nt)
				e.crashByTag[k]++
				if e.crashByTag[k] >= e.budget {
					e.skipTags[k] = true
				}
			}
			e.mu.Unlock()
			e.violation(tags, msg, makeCase(cfg, st.init, path))
			job.Skip = append(job.Skip, diedOp)
			continue
		}
		if res.HarnessErr != "" {
			e.harness("%s", res.HarnessErr)
		}
		e.mu.Lock()
		e.ctr.add(&res.Ctr)
		e.expanded++
		for t, n := range res.SkippedTag {
			e.skippedByTag[t] += n
		}
		e.mu.Unlock()
		for _, sm := range res.Samples {
			e.samples.Add(sm)
		}
		for _, sm := range res.Excused {
			e.excused.Add(sm)
		}
		for _, v := range res.Viols {
			last := ops[v.I]
			if v.Op != nil {
				last = *v.Op
			}
			path := append(append([]Op{}, st.path...), last)
			e.violation(v.Tags, v.Msg, makeCase(cfg, st.init, path))
		}
		if extra := res.NViol - len(res.Viols); extra > 0 {
			e.mu.Lock()
			e.nViol += int64(extra)
			e.kinds["(further violations of the same expansion, not written out)"] += extra
			e.mu.Unlock()
		}
		return res.Succ, ops
	}
}

func (e *explorer) violation(tags []string, msg string, c Case) {
	isNew := e.run.Violation(tags, msg, c)
	e.mu.Lock()
	if kind := fmt.Sprint(tags) + strings.SplitN(msg, "\n", 2)[0]; os.Getenv("C17_VERBOSE") != "" && e.kinds[kind] < 2 {
		e.kinds[kind]++
		fmt.Fprintf(os.Stderr, "--- %v\n%s\n", tags, msg)
	}
	if isNew {
		e.nViol++
		if e.nViol > 60000 {
			e.stop.Store(true)
		}
	}
	e.mu.Unlock()
}

func (e *explorer) harness(format string, a ...interface{}) {
	e.mu.Lock()
	defer e.mu.Unlock()
	if len(e.harnessErrs) < 5 {
		e.harnessErrs = append(e.harnessErrs, fmt.Sprintf(format, a...))
		e.run.HarnessError(format, a...)
	}
	e.stop.Store(true)
}

func keyHash(s string) [16]byte {
	h := sha256.Sum256([]byte(s))
	var k [16]byte
	copy(k[:], h[:16])
	return k
}

func (e *explorer) explore(nslots int) (levels []int, statesExpanded int64) {
	slots := make([]*slot, nslots)
	for i := range slots {
		slots[i] = &slot{id: i, dir: e.dir}
	}
	defer func() {
		for _, s := range slots {
			s.stop()
		}
	}()
	seen := map[[16]byte]struct{}{}
	var frontier []state
	for pi := range e.cfgs {
		for init := 0; init < 2; init++ {
			frontier = append(frontier, state{pipe: pi, init: init, inRed: true})
		}
	}
	maxDepth := e.tier.fullDepth
	if e.tier.redDepth > maxDepth {
		maxDepth = e.tier.redDepth
	}
	for depth := 0; depth < maxDepth && len(frontier) > 0 && !e.stop.Load(); depth++ {
		levels = append(levels, len(frontier))
		type item struct {
			st    state
			alpha string
		}
		var work []item
		for _, st := range frontier {
			switch {
			case depth < e.tier.fullDepth:
				work = append(work, item{st, "full"})
			case st.inRed && depth < e.tier.redDepth:
				work = append(work, item{st, e.tier.red})
			}
		}
		final := depth+1 >= maxDepth
		var next []state
		var nmu sync.Mutex
		ch := make(chan item, 256)
		var wg sync.WaitGroup
		for _, s := range slots {
			wg.Add(1)
			go func(s *slot) {
				defer wg.Done()
				for it := range ch {
					if e.stop.Load() {
						continue
					}
					// leaves of this expansion: nothing below them will be expanded
					leaf := final || (depth+1 >= e.tier.fullDepth && !(it.st.inRed && depth+1 < e.tier.redDepth))
					succ, ops := e.expandState(s, it.st, it.alpha, leaf)
					if leaf {
						continue
					}
					red := e.alphas[e.tier.red][it.st.pipe]
					nmu.Lock()
					for _, sm := range succ {
						if sm.St == stViolation || sm.St == stSkipped {
							continue
						}
						o := ops[sm.I]
						inRed := it.st.inRed && red.has(o)
						if depth+1 >= e.tier.fullDepth && !inRed {
							continue
						}
						k := keyHash(fmt.Sprintf("%d/%d/%v/", it.st.pipe, it.st.init, inRed) + sm.Key)
						if _, dup := seen[k]; dup {
							continue
						}
						seen[k] = struct{}{}
						next = append(next, state{pipe: it.st.pipe, init: it.st.init, path: append(append([]Op{}, it.st.path...), o), inRed: inRed})
					}
					nmu.Unlock()
				}
			}(s)
		}
		for _, it := range work {
			if time.Now().After(e.deadline) {
				e.timedOut.Store(true)
				break
			}
			ch <- it
		}
		close(ch)
		wg.Wait()
		statesExpanded += int64(len(work))
		if os.Getenv("C17_VERBOSE") != "" {
			fmt.Fprintf(os.Stderr, "level %d: %d states expanded, %d successors kept, t=%.1fs\n", depth, len(work), len(next), time.Since(e.run.Start).Seconds())
		}
		// deterministic order of the next level
		sort.Slice(next, func(i, j int) bool {
			a, b := next[i], next[j]
			if a.pipe != b.pipe {
				return a.pipe < b.pipe
			}
			if a.init != b.init {
				return a.init < b.init
			}
			return fmt.Sprint(a.path) < fmt.Sprint(b.path)
		})
		frontier = next
		if e.timedOut.Load() {
			break
		}
	}
	return
}

// countHashes reads the hash files of all workers and counts distinct values per tag.
func countHashes(dir string) map[byte]int {
	sets := map[byte][]uint64{}
	files, _ := filepath.Glob(filepath.Join(dir, "hashes-*"))
	for _, f := range files {
		b, err := os.ReadFile(f)
		if err != nil {
			continue
		}
		for i := 0; i+9 <= len(b); i += 9 {
			sets[b[i]] = append(sets[b[i]], binary.LittleEndian.Uint64(b[i+1:i+9]))
		}
	}
	out := map[byte]int{}
	for t, l := range sets {
		sort.Slice(l, func(i, j int) bool { return l[i] < l[j] })
		n := 0
		for i := range l {
			if i == 0 || l[i] != l[i-1] {
				n++
			}
		}
		out[t] = n
	}
	return out
}

func doReplay(run *mc.Run, path string) {
	var c Case
	if err := mc.LoadReplay(path, &c); err != nil {
		fmt.Fprintln(os.Stderr, err)
		os.Exit(3)
	}
	cfgs, _ := buildConfigs()
	pi, init := -1, -1
	for i, cf := range cfgs {
		if cf.Name == c.Pipeline {
			pi = i
		}
	}
	for i, n := range initNames {
		if n == c.Initial {
			init = i
		}
	}
	if pi < 0 || init < 0 {
		fmt.Fprintf(os.Stderr, "HARNESS-ERROR: unknown pipeline/initial state in replay file\n")
		os.Exit(3)
	}
	var ops []Op
	for _, r := range c.Ops {
		o, err := cfgs[pi].parse(r)
		if err != nil {
			fmt.Fprintln(os.Stderr, "HARNESS-ERROR:", err)
			os.Exit(3)
		}
		ops = append(ops, o)
	}
	dir, _ := os.MkdirTemp("", "c17-replay-")
	defer os.RemoveAll(dir)
	s := &slot{id: 0, dir: dir}
	fmt.Printf("pipeline=%s initial=%s\ncalls: %s\n", c.Pipeline, c.Initial, cfgs[pi].pathString(ops))
	res, died, diedOp, stderr, err := s.call(&jobMsg{ID: 1, Pipe: pi, Init: init, Path: ops, Replay: true})
	s.stop()
	if err != nil {
		fmt.Fprintln(os.Stderr, "HARNESS-ERROR:", err)
		os.RemoveAll(dir)
		os.Exit(3)
	}
	if died {
		at := "outside a call"
		if diedOp >= 0 && diedOp < len(ops) {
			at = fmt.Sprintf("in call %d: %s", diedOp+1, cfgs[pi].opString(ops[diedOp]))
		}
		fmt.Printf("the worker process DIED %s\n  %s\nVIOLATION (still reproduces): the registration call kills the process instead of returning an error\n", at, stderr)
		os.RemoveAll(dir)
		os.Exit(1)
	}
	for _, l := range res.Steps {
		fmt.Println(l)
	}
	if res.HarnessErr != "" {
		fmt.Fprintln(os.Stderr, "HARNESS-ERROR:", res.HarnessErr)
		os.RemoveAll(dir)
		os.Exit(3)
	}
	if res.NViol > 0 {
		fmt.Println("VIOLATION (still reproduces)")
		os.RemoveAll(dir)
		os.Exit(1)
	}
	fmt.Println("no violation")
}

func main() {
	if len(os.Args) > 1 && os.Args[1] == workerFlag {
		workerMain()
		return
	}
	if len(os.Args) > 1 && os.Args[1] == "--c17-count" {
		countMain()
		return
	}
	args := mc.ParseArgs()
	run := mc.NewRun("C17", args.Tier, "model_checking")
	if args.Replay != "" {
		doReplay(run, args.Replay)
		return
	}
	if err := verifyLayout(); err != nil {
		run.HarnessError("%v", err)
		run.Finish(nil)
	}
	dir, err := os.MkdirTemp("", "c17-run-")
	if err != nil {
		run.HarnessError("%v", err)
		run.Finish(nil)
	}
	defer os.RemoveAll(dir)
	e := &explorer{run: run, tier: tiers[args.Tier], dir: dir, samples: &mc.Samples{N: 8}, excused: &mc.Samples{N: 5},
		crashByTag: map[string]int{}, skipTags: map[string]bool{}, skippedByTag: map[string]int{}, kinds: map[string]int{}}
	e.cfgs, e.alphas = buildConfigs()
	e.budget = 40
	if args.Tier == "thorough" {
		e.budget = 400
	}
	if v, err := strconv.Atoi(os.Getenv("C17_CRASH_BUDGET")); err == nil && v > 0 {
		e.budget = v
	}
	limit := 5 * time.Minute
	if args.Tier == "thorough" {
		limit = 25 * time.Minute
	}
	if v, err := strconv.Atoi(os.Getenv("C17_DEADLINE_S")); err == nil && v > 0 {
		limit = time.Duration(v) * time.Second
	}
	e.deadline = time.Now().Add(limit)
	if v, err := strconv.Atoi(os.Getenv("C17_FULL_DEPTH")); err == nil && v > 0 {
		e.tier.fullDepth = v
		if e.tier.redDepth < v {
			e.tier.redDepth = v
		}
	}
	levels, expanded := e.explore(16)
	hc := countHashes(dir)
	os.RemoveAll(dir)

	c := e.ctr
	exhaustive := !e.timedOut.Load() && !e.stop.Load() && c.NotExecuted == 0
	if run.NumViolations() == 0 && len(e.harnessErrs) == 0 && !e.timedOut.Load() {
		if c.SideChecks < 1000 || c.BuiltinPairs < 1000 || c.StarChecks < 100 || c.ReplacePos < 50 || c.RemoveExisting < 50 || c.ReRegistered < 50 || c.DupRegistrations < 50 || c.SpellingVariants < 1000 || c.IsolationChecks < 1000 || c.Errors < 10 || hc['O'] < 100 || c.StubsFired < 1000 || c.FreshChecks < 10 {
			run.HarnessError("vacuous run: side checks %d, built-in pairs %d, star checks %d, replace position checks %d, removes %d, re-registrations %d, errors %d, distinct outcomes %d, stub firings %d, fresh cross-checks %d", c.SideChecks, c.BuiltinPairs, c.StarChecks, c.ReplacePos, c.RemoveExisting, c.ReRegistered, c.Errors, hc['O'], c.StubsFired, c.FreshChecks)
		}
	}
	run.Assume("registering a registered name again without Replace (gorm warns 'duplicated callback'; once per name, plain Register(n) only): for that name any of its registered handlers may fire (one, or two different ones) and constraints involving the name are not checked; every other callback is checked as usual")
	run.Assume("outside the alphabet: a third registration of the same name, a duplicate registration that carries Before/After, Before/After combined with Replace, callbacks named \"*\", Match() on user callbacks")
	run.Assume("u1,u2,u3 are interchangeable fresh names: only sequences that introduce them in the order u1,u2,u3 are run (gorm's sorter only compares names for equality)")
	run.Assume("Before(\"*\")/After(\"*\") is read as: ahead of (behind) every callback that is not itself Before(\"*\") (After(\"*\")) and is not required by a named constraint or the built-in order to precede (follow) such a callback")
	run.Assume("registrations that contradict each other under the literal reading of \"*\" (one callback Before(\"*\") and After(\"*\"); \"*\" on one side and a registered name on the other; a callback required to follow an After(\"*\") callback or to precede a Before(\"*\") callback) are accepted by gorm without a defined order (its own tests use Before(x).After(\"*\")): for them the \"*\" part of the oracle is not evaluated, everything else is")
	run.Assume("\"either an error is returned, or\": once a call of the sequence has returned an error, ordering anomalies of the rest of the sequence are counted (order_anomalies_excused...) but not reported; a process death or panic is always reported")
	run.Assume("spellings: sequences are enumerated with Before(x).After(y); at every non-leaf level each Register-family call is additionally executed from the same state as After(y).Before(x), Match(true).Before(x).After(y), Match(true).After(y).Before(x) (one-sided: Match(true).Before/After/Register), each checked by the full oracle and required to give the same error, compiled order and registered list; the builder methods do not read pipeline state, so leaves are run in the canonical spelling only")
	run.Assume("isolation: per pipeline a second DB opened with its own Config and a third opened with the first DB's *Config value; after every call their pipelines must be unchanged; at non-leaf levels the same call is also issued on those DBs (first DB must be unchanged) and Session/WithContext/Debug handles must return the same callbacks manager")
	run.Assume("states below a violating or process-killing call are not expanded")
	run.Assume("states are restored by writing a saved copy of processor.callbacks/fns back through unsafe mirrors (layout verified by reflection at start-up); every 499th transition and every reported violation is re-executed on a freshly opened gorm and compared")
	skipped := map[string]int{}
	for k, v := range e.skippedByTag {
		skipped[k] = v
	}
	cov := map[string]interface{}{
		"states":                        hc['S'] + len(e.cfgs)*2,
		"transitions":                   c.Transitions,
		"traces_validated_against_impl": c.Transitions,
		"evaluations":                   c.Transitions,
		"distinct_nontrivial":           hc['O'],
		"distinct_observed_outcomes":    hc['O'],
		"states_expanded":               expanded,
		"frontier_sizes":                levels,
		"rule":                          fmt.Sprintf("breadth-first search from 12 initial states (6 pipelines x {pristine, every built-in Replace'd by a stub}); operations Register/Before/After/Before+After/Replace/Remove (incl. one duplicate Register per registered name) with names over all built-ins of the pipeline, u1..u3, zz (never registered) and \"*\"; every sequence up to length %d over the full alphabet, up to length %d over the reduced alphabet (%s); states de-duplicated on gorm's registered callback list + compiled order + the reference model's current registrations; distinct_nontrivial = distinct (pipeline, initial state, compiled order or error) outcomes", e.tier.fullDepth, e.tier.redDepth, e.tier.redDesc),
		"samples":                       e.samples.List(),
		"exhaustive":                    exhaustive,
		"exhaustive_note":               fmt.Sprintf("inputs whose Before/After constraints contain a cycle are executed only until %d worker processes per (pipeline, initial state) have been killed by them (known defect: fatal stack overflow in sortCallbacks); %d such inputs were not executed in this run; everything else inside the bound was executed", e.budget, c.NotExecuted),
		"timed_out":                     e.timedOut.Load(),
		"counters":                      c,
		"worker_deaths_by_input_class":  e.crashByTag,
		"not_executed_by_input_class":   skipped,
		"samples_excused_after_error":   e.excused.List(),
	}
	run.Finish(cov)
}
