package main

// Reference model of a callback pipeline: names, operations, alphabet
// (with the u1/u2/u3 symmetry reduction), the constraint graph of the
// *current* registrations, input-side tags and the oracle.

import (
	"fmt"
	"sort"
	"strings"
)

const (
	kRegister = 0
	kReplace  = 1
	kRemove   = 2

	numU     = 3
	maxNames = 16
)

// pipeCfg describes one of the six pipelines. Name indexes:
// 0..nb-1 built-ins (original order), nb..nb+2 = u1,u2,u3, nb+3 = "zz" (a name
// that is never registered), nb+4 = "*".
type pipeCfg struct {
	Name     string
	Builtins []string
	names    []string
	nb       int
}

func newPipeCfg(name string, builtins []string) *pipeCfg {
	p := &pipeCfg{Name: name, Builtins: builtins, nb: len(builtins)}
	p.names = append(p.names, builtins...)
	p.names = append(p.names, "u1", "u2", "u3", "zz", "*")
	if len(p.names) > maxNames {
		panic("too many names")
	}
	return p
}

func (p *pipeCfg) iU(k int) int8   { return int8(p.nb + k) }
func (p *pipeCfg) iZZ() int8       { return int8(p.nb + numU) }
func (p *pipeCfg) iStar() int8     { return int8(p.nb + numU + 1) }
func (p *pipeCfg) isU(i int8) bool { return int(i) >= p.nb && int(i) < p.nb+numU }
func (p *pipeCfg) isB(i int8) bool { return i >= 0 && int(i) < p.nb }
func (p *pipeCfg) name(i int8) string {
	if i < 0 {
		return ""
	}
	return p.names[i]
}
func (p *pipeCfg) index(s string) int8 {
	if s == "" {
		return -1
	}
	for i, n := range p.names {
		if n == s {
			return int8(i)
		}
	}
	return -2
}

// Op is one registration call. X = Before(x), Y = After(y); -1 = not given.
type Op struct {
	K uint8 `json:"k"`
	N int8  `json:"n"`
	X int8  `json:"x"`
	Y int8  `json:"y"`
	// S: how the registration is written (same meaning, different API path):
	// 0 Before(x).After(y) | 1 After(y).Before(x) | 2 Match(true).Before(x).After(y) | 3 Match(true).After(y).Before(x)
	S uint8 `json:"s,omitempty"`
}

const (
	spBA  = 0
	spAB  = 1
	spMBA = 2
	spMAB = 3
)

// spellings returns the alternative spellings of a Register-family op.
func spellings(o Op) []uint8 {
	if o.K != kRegister {
		return nil
	}
	if o.X >= 0 && o.Y >= 0 {
		return []uint8{spAB, spMBA, spMAB}
	}
	return []uint8{spMBA}
}

// ROp is the readable (replay file) form of an Op.
type ROp struct {
	Op     string `json:"op"`
	Name   string `json:"name"`
	Before string `json:"before,omitempty"`
	After  string `json:"after,omitempty"`
	// "" = Before(..).After(..); "after-first"; "match"; "match-after-first"
	Spelling string `json:"spelling,omitempty"`
}

var spellingNames = []string{"", "after-first", "match", "match-after-first"}

func (p *pipeCfg) readable(o Op) ROp {
	return ROp{Op: []string{"register", "replace", "remove"}[o.K], Name: p.name(o.N), Before: p.name(o.X), After: p.name(o.Y), Spelling: spellingNames[o.S&3]}
}

func (p *pipeCfg) parse(r ROp) (Op, error) {
	var o Op
	switch r.Op {
	case "register":
		o.K = kRegister
	case "replace":
		o.K = kReplace
	case "remove":
		o.K = kRemove
	default:
		return o, fmt.Errorf("unknown op %q", r.Op)
	}
	o.N, o.X, o.Y = p.index(r.Name), p.index(r.Before), p.index(r.After)
	for i, n := range spellingNames {
		if n == r.Spelling {
			o.S = uint8(i)
		}
	}
	if o.N < 0 || o.X == -2 || o.Y == -2 {
		return o, fmt.Errorf("name outside the alphabet of pipeline %s in %+v", p.Name, r)
	}
	return o, nil
}

func (p *pipeCfg) opString(o Op) string {
	switch o.K {
	case kReplace:
		return fmt.Sprintf("Replace(%q)", p.name(o.N))
	case kRemove:
		return fmt.Sprintf("Remove(%q)", p.name(o.N))
	}
	s, bx, ay := "", "", ""
	if o.S >= spMBA {
		s = "Match(true)."
	}
	if o.X >= 0 {
		bx = fmt.Sprintf("Before(%q).", p.name(o.X))
	}
	if o.Y >= 0 {
		ay = fmt.Sprintf("After(%q).", p.name(o.Y))
	}
	if o.S == spAB || o.S == spMAB {
		s += ay + bx
	} else {
		s += bx + ay
	}
	return s + fmt.Sprintf("Register(%q)", p.name(o.N))
}

func (p *pipeCfg) pathString(ops []Op) string {
	var s []string
	for _, o := range ops {
		s = append(s, p.opString(o))
	}
	return strings.Join(s, "; ")
}

// ---------------------------------------------------------------------------
// model

type reg struct {
	on      bool
	builtin bool // still the original built-in registration (possibly Replace'd)
	x, y    int8 // Before / After of the current registration
	gen     int8 // generation of the handler that must fire
	repl    bool // the handler was exchanged by Replace since the name was registered
	seq     int8 // registration order (built-ins first)
	// dup: the name was registered a second time without Replace while it was
	// registered. Weakest reading: any of the handlers in gens may fire (one of
	// them, or two different ones); constraints that involve the name are not
	// checked. x2/y2 = Before/After of the second registration (tags only).
	dup    bool
	gens   uint16
	x2, y2 int8
}

type model struct {
	r     [maxNames]reg
	usedU int8 // how many of u1..u3 have been mentioned so far (symmetry reduction)
	next  int8 // next registration sequence number
	// ghost[n]: names that the removed registration of n named in Before/After;
	// reborn[n]: the same after n has been registered again
	ghost  [maxNames]uint16
	reborn [maxNames]uint16
}

func initialModel(p *pipeCfg) model {
	var m model
	for i := 0; i < p.nb; i++ {
		m.r[i] = reg{on: true, builtin: true, x: -1, y: -1, seq: int8(i), x2: -1, y2: -1}
	}
	m.next = int8(p.nb)
	return m
}

func (m *model) mention(p *pipeCfg, i int8) {
	if p.isU(i) {
		if k := i - int8(p.nb) + 1; k > m.usedU {
			m.usedU = k
		}
	}
}

// apply updates the model; gen is the generation of the handler passed to the call.
func (m *model) apply(p *pipeCfg, o Op, gen int8) {
	m.mention(p, o.N)
	m.mention(p, o.X)
	m.mention(p, o.Y)
	if o.K != kRemove && !m.r[o.N].on {
		m.reborn[o.N], m.ghost[o.N] = m.ghost[o.N], 0
	}
	switch o.K {
	case kRegister:
		if r := &m.r[o.N]; r.on {
			// duplicate registration
			if !r.dup {
				r.gens = 1 << uint(r.gen)
			}
			r.dup, r.x2, r.y2 = true, o.X, o.Y
			r.gens |= 1 << uint(gen)
			r.gen = gen
			break
		}
		m.r[o.N] = reg{on: true, x: o.X, y: o.Y, gen: gen, seq: m.next, x2: -1, y2: -1}
		m.next++
	case kReplace:
		if m.r[o.N].on {
			m.r[o.N].gen = gen
			m.r[o.N].repl = true
			m.r[o.N].gens |= 1 << uint(gen)
		} else {
			m.r[o.N] = reg{on: true, x: -1, y: -1, gen: gen, seq: m.next, x2: -1, y2: -1}
			m.next++
		}
	case kRemove:
		if r := m.r[o.N]; r.on {
			m.reborn[o.N], m.ghost[o.N] = 0, 0
			if !r.dup {
				r.x2, r.y2 = -1, -1
			}
			for _, t := range []int8{r.x, r.y, r.x2, r.y2} {
				if t >= 0 && t != p.iStar() && t != o.N {
					m.ghost[o.N] |= 1 << uint(t)
				}
			}
		}
		m.r[o.N] = reg{}
	}
}

func (m *model) appendKey(p *pipeCfg, b []byte) []byte {
	for i := range p.names {
		r := &m.r[i]
		if r.on {
			fl := byte('0')
			if r.builtin {
				fl |= 1
			}
			if r.repl {
				fl |= 2
			}
			b = append(b, byte('a'+i), byte('b'+r.x), byte('b'+r.y), fl)
			if r.dup {
				b = append(b, '!', byte('b'+r.x2), byte('b'+r.y2), byte(r.gens), byte(r.gens>>8))
			}
			if m.reborn[i] != 0 {
				b = append(b, '^', byte(m.reborn[i]), byte(m.reborn[i]>>8))
			}
		} else if m.ghost[i] != 0 {
			b = append(b, '~', byte('a'+i), byte(m.ghost[i]), byte(m.ghost[i]>>8))
		}
	}
	return append(b, 'u', byte('0'+m.usedU))
}

func (m *model) key(p *pipeCfg) string { return string(m.appendKey(p, nil)) }

// graph of hard precedence constraints: pre[a] has bit b iff a must precede b.
type graph [maxNames]uint16

func (m *model) graph(p *pipeCfg, withBuiltinOrder bool) (g graph) {
	if withBuiltinOrder {
		last := int8(-1)
		for i := int8(0); int(i) < p.nb; i++ {
			if m.r[i].on && m.r[i].builtin && !m.r[i].dup {
				if last >= 0 {
					g[last] |= 1 << uint(i)
				}
				last = i
			}
		}
	}
	star := p.iStar()
	for i := range p.names {
		r := &m.r[i]
		if !r.on {
			continue
		}
		if r.x >= 0 && r.x != star && m.r[r.x].on {
			g[i] |= 1 << uint(r.x)
		}
		if r.y >= 0 && r.y != star && m.r[r.y].on {
			g[r.y] |= 1 << uint(i)
		}
		if r.dup {
			if r.x2 >= 0 && r.x2 != star && m.r[r.x2].on {
				g[i] |= 1 << uint(r.x2)
			}
			if r.y2 >= 0 && r.y2 != star && m.r[r.y2].on {
				g[r.y2] |= 1 << uint(i)
			}
		}
	}
	return
}

// edgeKind: 'B' = a registered Before(b); 'A' = b registered After(a); 'D' = both.
func (m *model) edgeKind(p *pipeCfg, a, b int) string {
	k := ""
	if m.r[a].on && (int(m.r[a].x) == b || (m.r[a].dup && int(m.r[a].x2) == b)) {
		k = "B"
	}
	if m.r[b].on && (int(m.r[b].y) == a || (m.r[b].dup && int(m.r[b].y2) == a)) {
		if k != "" {
			return "D"
		}
		k = "A"
	}
	return k
}

func (m *model) userCyclic(p *pipeCfg) bool {
	return m.graph(p, false).cyclic(len(p.names))
}

// closure returns reach[a] = set of nodes that a must (transitively) precede.
func (g graph) closure(n int) graph {
	r := g
	for changed := true; changed; {
		changed = false
		for a := 0; a < n; a++ {
			acc := r[a]
			for b := 0; b < n; b++ {
				if r[a]&(1<<uint(b)) != 0 {
					acc |= r[b]
				}
			}
			if acc != r[a] {
				r[a] = acc
				changed = true
			}
		}
	}
	return r
}

func (g graph) cyclic(n int) bool {
	any := uint16(0)
	for a := 0; a < n; a++ {
		if g[a]&(1<<uint(a)) != 0 {
			return true
		}
		any |= g[a]
	}
	if any == 0 {
		return false
	}
	c := g.closure(n)
	for a := 0; a < n; a++ {
		if c[a]&(1<<uint(a)) != 0 {
			return true
		}
	}
	return false
}

// starContradictory: under the literal reading of "*" ("before/after ALL
// callbacks") the current registrations contradict each other: one callback is
// Before("*") and After("*"); or has "*" on one side and a registered name on
// the other; or is required to follow an After("*") callback / precede a
// Before("*") callback. gorm accepts such registrations (its own tests use
// Before(x).After("*")) without defining the order, so the "*" part of the
// oracle is not evaluated for them.
func (m *model) starContradictory(p *pipeCfg) bool {
	star := p.iStar()
	for i := range p.names {
		r := m.r[i]
		if !r.on {
			continue
		}
		if r.x == star && r.y == star {
			return true
		}
		if (r.x == star && r.y >= 0 && m.r[r.y].on) || (r.y == star && r.x >= 0 && m.r[r.x].on) {
			return true
		}
		if (r.y >= 0 && r.y != star && m.r[r.y].on && m.r[r.y].y == star) || (r.x >= 0 && r.x != star && m.r[r.x].on && m.r[r.x].x == star) {
			return true
		}
	}
	return false
}

// tags are computed from the input (the model after the op) only.
func (m *model) tags(p *pipeCfg) []string {
	tags := m.tagsStar(p)
	n := len(p.names)
	gu := m.graph(p, false)
	cu := gu.closure(n)
	var sig []string
	userCycle := false
	for a := 0; a < n; a++ {
		for b := 0; b < n; b++ {
			if gu[a]&(1<<uint(b)) == 0 {
				continue
			}
			// edge a->b lies on a cycle iff b reaches a (or a == b)
			if a == b || cu[b]&(1<<uint(a)) != 0 {
				userCycle = true
				k := m.edgeKind(p, a, b)
				if a == b {
					k = "self" + k
				}
				sig = append(sig, k)
			}
		}
	}
	if userCycle {
		sort.Strings(sig)
		tags = append(tags, "cyclic-before-after-constraints", "cyclic-before-after-constraints:"+strings.Join(sig, ""))
	} else {
		if m.graph(p, true).cyclic(n) {
			tags = append(tags, "constraints-cyclic-with-builtin-order")
		}
	}
	star := p.iStar()
	for i := range p.names {
		// a registered Before(b); b has an After(..) of its own and is sorted later than a
		// (registered later, or moved to the end of the work list because of a "*")
		a := m.r[i]
		if !a.on || a.x < 0 || a.x == star || int(a.x) == i || !m.r[a.x].on {
			continue
		}
		b := m.r[a.x]
		aStar := a.x == star || a.y == star
		bStar := b.x == star || b.y == star
		if b.y >= 0 && ((bStar && !aStar) || (bStar == aStar && b.seq > a.seq)) {
			tags = append(tags, "before-names-later-sorted-callback-that-has-its-own-after")
			break
		}
	}
	for i := range p.names {
		if !m.r[i].on || m.reborn[i] == 0 {
			continue
		}
		for t := range p.names {
			if m.reborn[i]&(1<<uint(t)) != 0 && m.r[t].on {
				tags = append(tags, "name-registered-again-after-remove-while-callback-named-by-its-old-constraint-remains")
				break
			}
		}
	}
	for i := range p.names {
		if r := m.r[i]; r.on && r.repl && (r.x == star || r.y == star) {
			tags = append(tags, "replace-of-callback-registered-with-star")
			break
		}
	}
	return tags
}

// ---------------------------------------------------------------------------
// alphabet

type alphabet struct {
	Label string
	ref   []int8 // names allowed as x / y
	regN  []int8 // names allowed as n of the Register family
	replN []int8
	remN  []int8
	combo bool // Before(x).After(y).Register allowed
	set   [4]uint32
}

func mask(l []int8) uint32 {
	var m uint32
	for _, i := range l {
		m |= 1 << uint(i)
	}
	return m
}

func (a *alphabet) seal() *alphabet {
	a.set = [4]uint32{mask(a.ref), mask(a.regN), mask(a.replN), mask(a.remN)}
	return a
}

func (a *alphabet) has(o Op) bool {
	in := func(s uint32, i int8) bool { return i < 0 || s&(1<<uint(i)) != 0 }
	switch o.K {
	case kRegister:
		if o.X >= 0 && o.Y >= 0 && !a.combo {
			return false
		}
		return in(a.set[1], o.N) && in(a.set[0], o.X) && in(a.set[0], o.Y)
	case kReplace:
		return in(a.set[2], o.N)
	default:
		return in(a.set[3], o.N)
	}
}

// fullAlphabet: n in built-ins + u1..u3 (Register only when the name is not
// currently registered), x,y in built-ins + u1..u3 + zz + "*".
func fullAlphabet(p *pipeCfg) *alphabet {
	a := &alphabet{Label: "full", combo: true}
	for i := int8(0); int(i) < p.nb+numU; i++ {
		a.ref = append(a.ref, i)
		a.regN = append(a.regN, i)
		a.replN = append(a.replN, i)
		a.remN = append(a.remN, i)
	}
	a.ref = append(a.ref, p.iZZ(), p.iStar())
	a.remN = append(a.remN, p.iZZ(), p.iStar())
	return a.seal()
}

// reducedAlphabet keeps `nbKeep` built-ins (spread over the pipeline: first,
// middle, last, ...), `nu` new names, and optionally zz / "*".
func reducedAlphabet(p *pipeCfg, label string, nbKeep, nu int, zz, star, combo bool) *alphabet {
	a := &alphabet{Label: label, combo: combo}
	var keep []int8
	switch {
	case nbKeep >= p.nb:
		for i := 0; i < p.nb; i++ {
			keep = append(keep, int8(i))
		}
	case nbKeep == 1:
		keep = []int8{int8(p.nb / 2)}
	default:
		seen := map[int8]bool{}
		for k := 0; k < nbKeep; k++ {
			i := int8((k*(p.nb-1) + (nbKeep-1)/2) / (nbKeep - 1))
			if !seen[i] {
				seen[i] = true
				keep = append(keep, i)
			}
		}
	}
	for _, i := range keep {
		a.ref = append(a.ref, i)
		a.regN = append(a.regN, i)
		a.replN = append(a.replN, i)
		a.remN = append(a.remN, i)
	}
	for k := 0; k < nu; k++ {
		i := p.iU(k)
		a.ref = append(a.ref, i)
		a.regN = append(a.regN, i)
		a.replN = append(a.replN, i)
		a.remN = append(a.remN, i)
	}
	if zz {
		a.ref = append(a.ref, p.iZZ())
		a.remN = append(a.remN, p.iZZ())
	}
	if star {
		a.ref = append(a.ref, p.iStar())
	}
	return a.seal()
}

// ops enumerates the operations of alphabet a that are inside the property's
// alphabet in model state m, canonical w.r.t. renaming of u1..u3 (a new
// u-name may only be the lowest unused one, scanning n, x, y in this order).
func (a *alphabet) ops(p *pipeCfg, m *model, out []Op) []Op {
	out = out[:0]
	use := func(i int8, used int8) (bool, int8) {
		if !p.isU(i) {
			return true, used
		}
		k := i - int8(p.nb)
		if k < used {
			return true, used
		}
		if k == used {
			return true, used + 1
		}
		return false, used
	}
	for _, n := range a.regN {
		if m.r[n].on {
			// registering a registered name again without Replace (gorm warns
			// "duplicated callback"): once per name, plain Register(n) only (a duplicate
			// that brings its own Before/After has no reading under which the other
			// callbacks' constraints stay well defined)
			if m.r[n].dup {
				continue
			}
			if ok, _ := use(n, m.usedU); ok {
				out = append(out, Op{K: kRegister, N: n, X: -1, Y: -1})
			}
			continue
		}
		ok, u0 := use(n, m.usedU)
		if !ok {
			continue
		}
		out = append(out, Op{K: kRegister, N: n, X: -1, Y: -1})
		for _, x := range a.ref {
			if ok, _ := use(x, u0); ok {
				out = append(out, Op{K: kRegister, N: n, X: x, Y: -1})
			}
		}
		for _, y := range a.ref {
			if ok, _ := use(y, u0); ok {
				out = append(out, Op{K: kRegister, N: n, X: -1, Y: y})
			}
		}
		if a.combo {
			for _, x := range a.ref {
				ok, u1 := use(x, u0)
				if !ok {
					continue
				}
				for _, y := range a.ref {
					if ok, _ := use(y, u1); ok {
						out = append(out, Op{K: kRegister, N: n, X: x, Y: y})
					}
				}
			}
		}
	}
	for _, n := range a.replN {
		if ok, _ := use(n, m.usedU); ok {
			out = append(out, Op{K: kReplace, N: n, X: -1, Y: -1})
		}
	}
	for _, n := range a.remN {
		if ok, _ := use(n, m.usedU); ok {
			out = append(out, Op{K: kRemove, N: n, X: -1, Y: -1})
		}
	}
	return out
}
