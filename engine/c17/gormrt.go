package main

// Access to the real gorm pipelines: a database-less dialector that only
// registers the default callbacks, mirror types to read/restore the unexported
// processor state (layout verified by reflection at start-up), recording stubs
// and the two observations (structural: compiled processor.fns mapped back to
// names by function value identity; behavioural: executing the pipeline).

import (
	"context"
	"fmt"
	"reflect"
	"unsafe"

	"gorm.io/gorm"
	"gorm.io/gorm/callbacks"
	"gorm.io/gorm/clause"
	"gorm.io/gorm/logger"
	"gorm.io/gorm/schema"
)

type nopDialector struct{}

func (nopDialector) Name() string { return "c17nop" }
func (nopDialector) Initialize(db *gorm.DB) error {
	callbacks.RegisterDefaultCallbacks(db, &callbacks.Config{})
	return nil
}
func (nopDialector) Migrator(*gorm.DB) gorm.Migrator { return nil }
func (nopDialector) DataTypeOf(*schema.Field) string { return "" }
func (nopDialector) DefaultValueOf(*schema.Field) clause.Expression {
	return clause.Expr{SQL: "DEFAULT"}
}
func (nopDialector) BindVarTo(w clause.Writer, s *gorm.Statement, v interface{}) {
	w.WriteByte('?')
}
func (nopDialector) QuoteTo(w clause.Writer, s string)              { w.WriteString(s) }
func (nopDialector) Explain(sql string, vars ...interface{}) string { return sql }

func openGorm() *gorm.DB {
	db, err := gorm.Open(nopDialector{}, &gorm.Config{Logger: logger.Discard, DryRun: true, DisableAutomaticPing: true})
	if err != nil {
		panic(fmt.Sprintf("gorm.Open: %v", err))
	}
	return db
}

// mirrors of gorm's unexported processor / callback (callbacks.go)
type procMirror struct {
	db        *gorm.DB
	Clauses   []string
	fns       []func(*gorm.DB)
	callbacks []*cbMirror
}

type cbMirror struct {
	name      string
	before    string
	after     string
	remove    bool
	replace   bool
	match     func(*gorm.DB) bool
	handler   func(*gorm.DB)
	processor *procMirror
}

// extraProcFields: fields a changed tree appended to gorm's processor struct
// behind the mirrored ones. They are pipeline state the mirror does not name,
// so snapshots copy and restore them by reflection (deep copy of maps/slices).
var extraProcFields []reflect.StructField

func sameLayout(real, mirror reflect.Type, what string, allowTrailing bool) error {
	if real.Kind() != reflect.Struct || real.NumField() < mirror.NumField() ||
		(!allowTrailing && (real.NumField() != mirror.NumField() || real.Size() != mirror.Size())) {
		return fmt.Errorf("gorm %s: layout differs from the harness mirror (fields %d vs %d)", what, real.NumField(), mirror.NumField())
	}
	for i := 0; i < mirror.NumField(); i++ {
		a, b := real.Field(i), mirror.Field(i)
		if a.Name != b.Name || a.Offset != b.Offset || a.Type.Kind() != b.Type.Kind() || a.Type.Size() != b.Type.Size() {
			return fmt.Errorf("gorm %s field %d: %s %s@%d, mirror has %s %s@%d", what, i, a.Name, a.Type, a.Offset, b.Name, b.Type, b.Offset)
		}
	}
	return nil
}

func verifyLayout() error {
	db := openGorm()
	pt := reflect.TypeOf(db.Callback().Create()).Elem()
	if err := sameLayout(pt, reflect.TypeOf(procMirror{}), "processor", true); err != nil {
		return err
	}
	extraProcFields = nil
	for i := reflect.TypeOf(procMirror{}).NumField(); i < pt.NumField(); i++ {
		extraProcFields = append(extraProcFields, pt.Field(i))
	}
	f, ok := pt.FieldByName("callbacks")
	if !ok || f.Type.Kind() != reflect.Slice || f.Type.Elem().Kind() != reflect.Ptr {
		return fmt.Errorf("gorm processor.callbacks is not []*callback")
	}
	return sameLayout(f.Type.Elem().Elem(), reflect.TypeOf(cbMirror{}), "callback", false)
}

var pipelineNames = []string{"create", "query", "update", "delete", "row", "raw"}

// api binds the registration calls of one pipeline of one *gorm.DB.
type api struct {
	proc     *procMirror
	register func(sp uint8, n, x, y string, hasX, hasY bool, fn func(*gorm.DB)) error
	replace  func(n string, fn func(*gorm.DB)) error
	remove   func(n string) error
	execute  func()
}

func alwaysMatch(*gorm.DB) bool { return true }

type m17 struct {
	ID   uint
	Name string
}

func bind(db *gorm.DB, pipe string) api {
	p := db.Callback().Create()
	var exec func()
	switch pipe {
	case "create":
		exec = func() { db.Create(&m17{Name: "a"}) }
	case "query":
		p = db.Callback().Query()
		exec = func() { db.Find(&[]m17{}) }
	case "update":
		p = db.Callback().Update()
		exec = func() { db.Model(&m17{ID: 1}).Update("name", "b") }
	case "delete":
		p = db.Callback().Delete()
		exec = func() { db.Delete(&m17{ID: 1}) }
	case "row":
		p = db.Callback().Row()
		exec = func() { db.Raw("SELECT 1").Row() }
	case "raw":
		p = db.Callback().Raw()
		exec = func() { db.Exec("SELECT 1") }
	default:
		panic("unknown pipeline " + pipe)
	}
	return api{
		proc: (*procMirror)(unsafe.Pointer(p)),
		register: func(sp uint8, n, x, y string, hasX, hasY bool, fn func(*gorm.DB)) error {
			if sp >= spMBA {
				// every step through the chained (*callback) methods
				c := p.Match(alwaysMatch)
				switch {
				case hasX && hasY && sp == spMAB:
					c = c.After(y).Before(x)
				case hasX && hasY:
					c = c.Before(x).After(y)
				case hasX:
					c = c.Before(x)
				case hasY:
					c = c.After(y)
				}
				return c.Register(n, fn)
			}
			switch {
			case hasX && hasY && sp == spAB:
				return p.After(y).Before(x).Register(n, fn)
			case hasX && hasY:
				return p.Before(x).After(y).Register(n, fn)
			case hasX:
				return p.Before(x).Register(n, fn)
			case hasY:
				return p.After(y).Register(n, fn)
			}
			return p.Register(n, fn)
		},
		replace: func(n string, fn func(*gorm.DB)) error { return p.Replace(n, fn) },
		remove:  func(n string) error { return p.Remove(n) },
		execute: exec,
	}
}

// builtinNames reads the names of the default callbacks of every pipeline from
// a freshly opened gorm (so the alphabet follows the tree under test).
func builtinNames() map[string][]string {
	db := openGorm()
	out := map[string][]string{}
	for _, pn := range pipelineNames {
		a := bind(db, pn)
		for _, c := range a.proc.callbacks {
			out[pn] = append(out[pn], c.name)
		}
	}
	return out
}

func fptr(f func(*gorm.DB)) uintptr {
	if f == nil {
		return 0
	}
	return *(*uintptr)(unsafe.Pointer(&f))
}

// ent identifies a handler: name index and generation; Logs = it is a stub.
type ent struct {
	Name int8
	Gen  int8
}

const maxGen = 8

const (
	initPristine = 0
	initReplaced = 1
)

var initNames = []string{"pristine", "all-builtins-replaced"}

// rt is one real pipeline in one initial state.
type rt struct {
	cfg     *pipeCfg
	init    int
	db      *gorm.DB
	a       api
	stubs   [maxNames][maxGen]func(*gorm.DB)
	byPtr   map[uintptr]ent
	logs    map[uintptr]bool
	fired   []ent
	onFire  func(k int) // called by the k-th logging stub of a run (re-entrant registration probe)
	initial snap
	// isolation: dbB opened independently, dbC opened with r.db's *Config value
	others    []*otherDB
	isoBroken string
}

// otherDB is a second DB whose pipelines must never be affected by (and must
// never affect) registrations on r.db.
type otherDB struct {
	how  string
	db   *gorm.DB
	a    api
	base string // registered callback list + compiled function values at creation
	snap snap
}

func procFingerprint(p *procMirror) string {
	b := appendProcKey(nil, p, false)
	b = append(b, '#')
	for _, f := range p.fns {
		b = append(b, fmt.Sprintf("%x,", fptr(f))...)
	}
	return string(b)
}

func takeProc(p *procMirror) snap {
	s := snap{cbs: make([]cbMirror, len(p.callbacks)), fns: append([]func(*gorm.DB){}, p.fns...)}
	for i, c := range p.callbacks {
		s.cbs[i] = *c
	}
	s.extra = takeExtra(p)
	return s
}

func restoreProc(p *procMirror, s snap) {
	objs := make([]cbMirror, len(s.cbs))
	copy(objs, s.cbs)
	ptrs := make([]*cbMirror, len(objs), len(objs)+4)
	for i := range objs {
		ptrs[i] = &objs[i]
	}
	p.callbacks = ptrs
	p.fns = append(make([]func(*gorm.DB), 0, len(s.fns)), s.fns...)
	restoreExtra(p, s.extra)
}

// openOthers obtains further DBs the ways users do and records their pipelines.
func (r *rt) openOthers() {
	before := procFingerprint(r.a.proc)
	open := func(how string, opt gorm.Option) {
		db, err := gorm.Open(nopDialector{}, opt)
		if err != nil {
			r.isoBroken = fmt.Sprintf("gorm.Open (%s) failed: %v", how, err)
			return
		}
		o := &otherDB{how: how, db: db, a: bind(db, r.cfg.Name)}
		o.base = procFingerprint(o.a.proc)
		o.snap = takeProc(o.a.proc)
		r.others = append(r.others, o)
		if len(o.a.proc.callbacks) != r.cfg.nb && r.isoBroken == "" {
			r.isoBroken = fmt.Sprintf("a DB opened with %s starts with %d callbacks in the %s pipeline instead of the %d built-ins", how, len(o.a.proc.callbacks), r.cfg.Name, r.cfg.nb)
		}
	}
	open("its own fresh Config", &gorm.Config{Logger: logger.Discard, DryRun: true, DisableAutomaticPing: true})
	open("the first DB's *Config value (gorm.Open(dialector, db1.Config))", r.db.Config)
	if after := procFingerprint(r.a.proc); after != before && r.isoBroken == "" {
		r.isoBroken = "opening further DBs changed the first DB's pipeline: the registered callback list / compiled functions differ"
	}
}

// isolation: pipelines of the other DBs are unchanged; Session/WithContext
// handles of the same DB use the same pipelines.
func (r *rt) isolation() string {
	if r.isoBroken != "" {
		return r.isoBroken
	}
	for _, o := range r.others {
		if procFingerprint(o.a.proc) != o.base {
			return fmt.Sprintf("a registration call on one DB changed the %s pipeline of a DB opened with %s", r.cfg.Name, o.how)
		}
	}
	return ""
}

func (r *rt) handlesShare() string {
	cb := r.db.Callback()
	if r.db.Session(&gorm.Session{}).Callback() != cb || r.db.WithContext(context.Background()).Callback() != cb ||
		r.db.Session(&gorm.Session{NewDB: true}).Callback() != cb || r.db.Debug().Callback() != cb {
		return "a Session/WithContext/Debug handle of the same DB does not use the DB's callback pipelines"
	}
	return ""
}

// reverse: the same operation issued on another DB must leave r.db's pipeline alone.
func (r *rt) reverseIsolation(o Op, gen int8) string {
	mine := procFingerprint(r.a.proc)
	c := r.cfg
	for _, od := range r.others {
		func() {
			defer func() { recover() }()
			stub := func(*gorm.DB) { _ = gen }
			switch o.K {
			case kRegister:
				od.a.register(o.S, c.name(o.N), c.name(o.X), c.name(o.Y), o.X >= 0, o.Y >= 0, stub)
			case kReplace:
				od.a.replace(c.name(o.N), stub)
			case kRemove:
				od.a.remove(c.name(o.N))
			}
		}()
		restoreProc(od.a.proc, od.snap)
		if procFingerprint(r.a.proc) != mine {
			return fmt.Sprintf("a registration call on a DB opened with %s changed the %s pipeline of the first DB", od.how, c.Name)
		}
	}
	return ""
}

type snap struct {
	cbs   []cbMirror
	fns   []func(*gorm.DB)
	extra []reflect.Value // deep copies of extraProcFields
}

func deepCopy(v reflect.Value) reflect.Value {
	switch v.Kind() {
	case reflect.Map:
		if v.IsNil() {
			return reflect.Zero(v.Type())
		}
		m := reflect.MakeMapWithSize(v.Type(), v.Len())
		for it := v.MapRange(); it.Next(); {
			m.SetMapIndex(deepCopy(it.Key()), deepCopy(it.Value()))
		}
		return m
	case reflect.Slice:
		if v.IsNil() {
			return reflect.Zero(v.Type())
		}
		c := reflect.MakeSlice(v.Type(), v.Len(), v.Len())
		for i := 0; i < v.Len(); i++ {
			c.Index(i).Set(deepCopy(v.Index(i)))
		}
		return c
	}
	c := reflect.New(v.Type()).Elem()
	c.Set(v)
	return c
}

func extraField(p *procMirror, f reflect.StructField) reflect.Value {
	return reflect.NewAt(f.Type, unsafe.Add(unsafe.Pointer(p), f.Offset)).Elem()
}

func takeExtra(p *procMirror) []reflect.Value {
	if len(extraProcFields) == 0 {
		return nil
	}
	out := make([]reflect.Value, len(extraProcFields))
	for i, f := range extraProcFields {
		out[i] = deepCopy(extraField(p, f))
	}
	return out
}

func restoreExtra(p *procMirror, vals []reflect.Value) {
	for i, f := range extraProcFields {
		if i < len(vals) {
			extraField(p, f).Set(deepCopy(vals[i]))
		}
	}
}

func (r *rt) take() snap {
	s := snap{cbs: make([]cbMirror, len(r.a.proc.callbacks)), fns: append([]func(*gorm.DB){}, r.a.proc.fns...)}
	for i, c := range r.a.proc.callbacks {
		s.cbs[i] = *c
	}
	if r.a.proc.fns == nil {
		s.fns = nil
	}
	s.extra = takeExtra(r.a.proc)
	return s
}

func (r *rt) restore(s snap) {
	objs := make([]cbMirror, len(s.cbs))
	copy(objs, s.cbs)
	ptrs := make([]*cbMirror, len(objs), len(objs)+4)
	for i := range objs {
		ptrs[i] = &objs[i]
	}
	r.a.proc.callbacks = ptrs
	if s.fns == nil {
		r.a.proc.fns = nil
	} else {
		r.a.proc.fns = append(make([]func(*gorm.DB), 0, len(s.fns)), s.fns...)
	}
	restoreExtra(r.a.proc, s.extra)
}

// newRT opens a fresh gorm and brings the pipeline into the initial state.
func newRT(cfg *pipeCfg, init int) (*rt, error) {
	r := &rt{cfg: cfg, init: init, db: openGorm(), byPtr: map[uintptr]ent{}, logs: map[uintptr]bool{}}
	r.a = bind(r.db, cfg.Name)
	for i := range cfg.names {
		for g := 0; g < maxGen; g++ {
			e := ent{int8(i), int8(g)}
			f := func(*gorm.DB) { // capturing closure: one funcval per (name, gen)
				r.fired = append(r.fired, e)
				if r.onFire != nil {
					r.onFire(len(r.fired) - 1)
				}
			}
			r.stubs[i][g] = f
			r.byPtr[fptr(f)] = e
			r.logs[fptr(f)] = true
		}
	}
	if len(r.a.proc.callbacks) != cfg.nb {
		return nil, fmt.Errorf("pipeline %s: %d default callbacks, expected %d", cfg.Name, len(r.a.proc.callbacks), cfg.nb)
	}
	for i, c := range r.a.proc.callbacks {
		if c.name != cfg.Builtins[i] {
			return nil, fmt.Errorf("pipeline %s: default callback %d is %s, expected %s", cfg.Name, i, c.name, cfg.Builtins[i])
		}
		if init == initPristine {
			p := fptr(c.handler)
			if _, dup := r.byPtr[p]; dup {
				return nil, fmt.Errorf("pipeline %s: two default callbacks share one function value", cfg.Name)
			}
			r.byPtr[p] = ent{int8(i), 0}
		}
	}
	if init == initReplaced {
		for i, n := range cfg.Builtins {
			if err := r.a.replace(n, r.stubs[i][0]); err != nil {
				return nil, fmt.Errorf("initial Replace(%s): %v", n, err)
			}
		}
	}
	r.initial = r.take()
	r.openOthers()
	return r, nil
}

// apply performs one operation on the real pipeline.
func (r *rt) apply(o Op, gen int8) (err error, panicked string) {
	defer func() {
		if x := recover(); x != nil {
			panicked = fmt.Sprint(x)
		}
	}()
	c := r.cfg
	switch o.K {
	case kRegister:
		err = r.a.register(o.S, c.name(o.N), c.name(o.X), c.name(o.Y), o.X >= 0, o.Y >= 0, r.stubs[o.N][gen])
	case kReplace:
		err = r.a.replace(c.name(o.N), r.stubs[o.N][gen])
	case kRemove:
		err = r.a.remove(c.name(o.N))
	}
	return
}

// structural observation: compiled fns -> (name, gen); unknown = functions
// that are neither a stub nor an original default callback.
func (r *rt) compiled() (order []ent, unknown int, isNil bool) {
	fns := r.a.proc.fns
	if fns == nil {
		return nil, 0, true
	}
	order = make([]ent, 0, len(fns))
	for _, f := range fns {
		e, ok := r.byPtr[fptr(f)]
		if !ok {
			unknown++
			e = ent{-1, -1}
		}
		order = append(order, e)
	}
	return
}

// behavioural observation: run the pipeline, return the stubs that fired.
func (r *rt) run() (fired []ent, panicked string) {
	defer func() {
		if x := recover(); x != nil {
			panicked = fmt.Sprint(x)
		}
	}()
	r.fired = r.fired[:0]
	r.a.execute()
	return append([]ent{}, r.fired...), ""
}

// runReentrant executes the pipeline once more; when the k-th logging stub
// fires, that stub issues a registration call on the SAME pipeline (prepend a
// fresh callback Before("*"), or Remove the callback that is firing). The run
// in progress was started on the list compiled before that call, so it must
// fire exactly what a plain run fires. The pipeline is restored afterwards.
func (r *rt) runReentrant(k int, remove bool) (fired []ent, panicked string) {
	s := r.take()
	defer func() {
		r.onFire = nil
		r.restore(s)
	}()
	r.onFire = func(i int) {
		if i != k {
			return
		}
		if remove {
			r.a.remove(r.cfg.name(r.fired[i].Name))
		} else {
			r.a.register(0, "verif_reentrant", "*", "", true, false, func(*gorm.DB) {})
		}
	}
	return r.run()
}

// stateKey: the registered callback list as gorm holds it after the call.
func (r *rt) appendStateKey(b []byte) []byte { return appendProcKey(b, r.a.proc, false) }

func appendProcKey(b []byte, p *procMirror, ignoreMatch bool) []byte {
	for _, c := range p.callbacks {
		b = append(b, c.name...)
		b = append(b, '<')
		b = append(b, c.before...)
		b = append(b, '>')
		b = append(b, c.after...)
		fl := byte('0')
		if c.remove {
			fl |= 1
		}
		if c.replace {
			fl |= 2
		}
		if c.match != nil && !ignoreMatch {
			fl |= 4
		}
		b = append(b, '|', fl, ';')
	}
	return b
}

func (r *rt) listing() string {
	s := ""
	for _, c := range r.a.proc.callbacks {
		s += fmt.Sprintf("    {name:%s before:%q after:%q remove:%v replace:%v}\n", c.name, c.before, c.after, c.remove, c.replace)
	}
	return s
}
