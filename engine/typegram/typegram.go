// Package typegram is the model-type grammar shared by the C03 (round trip),
// C20 (AutoMigrate) and related harnesses: model types are built with
// reflect.StructOf from a key configuration, a fixed marker column and up to
// two "fields under test" (slots) drawn from a catalogue of field kinds, each
// with its own catalogue of boundary values.
//
// reflect.StructOf cannot create types with methods, therefore every type
// that needs methods (scanner/valuer types) or a name (embedded structs,
// serializer payloads) is predeclared here.
package typegram

import (
	"bytes"
	"context"
	"database/sql"
	"database/sql/driver"
	"encoding/gob"
	"encoding/json"
	"fmt"
	"math"
	"reflect"
	"sort"
	"strconv"
	"strings"
	"time"

	"gorm.io/gorm/schema"
)

// ---------------------------------------------------------------------------
// predeclared named types

// Money is a struct-kind scanner/valuer: stored as "units:cur" text.
type Money struct {
	Units int64
	Cur   string
}

func (m Money) Value() (driver.Value, error) { return fmt.Sprintf("%d:%s", m.Units, m.Cur), nil }
func (m *Money) Scan(v interface{}) error {
	var s string
	switch t := v.(type) {
	case nil:
		*m = Money{}
		return nil
	case string:
		s = t
	case []byte:
		s = string(t)
	default:
		return fmt.Errorf("Money.Scan: unsupported %T", v)
	}
	i := strings.IndexByte(s, ':')
	if i < 0 {
		return fmt.Errorf("Money.Scan: bad value %q", s)
	}
	u, err := strconv.ParseInt(s[:i], 10, 64)
	if err != nil {
		return err
	}
	m.Units, m.Cur = u, s[i+1:]
	return nil
}

// Level is an int-kind scanner/valuer whose database form differs from the Go
// form (x10), so that a path that bypasses Value/Scan is visible.
type Level int

func (l Level) Value() (driver.Value, error) { return int64(l) * 10, nil }
func (l *Level) Scan(v interface{}) error {
	switch t := v.(type) {
	case nil:
		*l = 0
	case int64:
		*l = Level(t / 10)
	case []byte:
		n, err := strconv.ParseInt(string(t), 10, 64)
		if err != nil {
			return err
		}
		*l = Level(n / 10)
	case string:
		n, err := strconv.ParseInt(t, 10, 64)
		if err != nil {
			return err
		}
		*l = Level(n / 10)
	default:
		return fmt.Errorf("Level.Scan: unsupported %T", v)
	}
	return nil
}

// Secret is a customized serializer TYPE: the field type itself implements
// schema.SerializerInterface (documented gorm feature). Stored as "enc:<s>";
// the empty secret is stored as NULL and NULL is loaded as the empty secret
// (Scan leaves the receiver untouched for NULL, the usual implementation).
type Secret string

func (s *Secret) Scan(ctx context.Context, field *schema.Field, dst reflect.Value, dbValue interface{}) error {
	switch v := dbValue.(type) {
	case nil:
	case []byte:
		*s = Secret(strings.TrimPrefix(string(v), "enc:"))
	case string:
		*s = Secret(strings.TrimPrefix(v, "enc:"))
	default:
		return fmt.Errorf("Secret.Scan: unsupported %T", dbValue)
	}
	return nil
}

func (s Secret) Value(ctx context.Context, field *schema.Field, dst reflect.Value, fieldValue interface{}) (interface{}, error) {
	if s == "" {
		return nil, nil
	}
	return "enc:" + string(s), nil
}

func secretCell(v interface{}) []interface{} {
	var s Secret
	switch t := v.(type) {
	case Secret:
		s = t
	case *Secret:
		if t == nil {
			return []interface{}{nil}
		}
		s = *t
	}
	if s == "" {
		return []interface{}{nil}
	}
	return []interface{}{"enc:" + string(s)}
}

func pSecret(s Secret) *Secret { return &s }

// Payload is the struct serialised by serializer:json.
type Payload struct {
	A int
	B string
	C []string
}

// GobPayload is the struct serialised by serializer:gob.
type GobPayload struct {
	N int
	S string
	M map[string]int
}

// embedded structs, one per slot so that two embedded fields without prefix
// do not collide.
type Emb0 struct {
	EA0 int
	EB0 string
}
type Emb1 struct {
	EA1 int
	EB1 string
}

// EmbD0 is Emb0 with a default on the inner int field (a v2 of Emb0).
type EmbD0 struct {
	EA0 int `gorm:"default:7"`
	EB0 string
}

// Twins embeds the same struct twice with different prefixes: two columns
// share each Go field name (EA0, EB0). TwinsH/TwinsW/TwinsB are its v2
// variants in which the inner field of Home / Work / both gained a default.
type Twins struct {
	Home Emb0 `gorm:"embedded;embeddedPrefix:home_"`
	Work Emb0 `gorm:"embedded;embeddedPrefix:work_"`
}
type TwinsH struct {
	Home EmbD0 `gorm:"embedded;embeddedPrefix:home_"`
	Work Emb0  `gorm:"embedded;embeddedPrefix:work_"`
}
type TwinsW struct {
	Home Emb0  `gorm:"embedded;embeddedPrefix:home_"`
	Work EmbD0 `gorm:"embedded;embeddedPrefix:work_"`
}
type TwinsB struct {
	Home EmbD0 `gorm:"embedded;embeddedPrefix:home_"`
	Work EmbD0 `gorm:"embedded;embeddedPrefix:work_"`
}

// ShadowDoc embeds ShadowBase ANONYMOUSLY and re-declares Name after it: both
// Name fields map to the same column, the outer (shorter path) one owns it;
// ShadowBase.Name is hidden and never stored.
type ShadowBase struct {
	Name string
	Note string // (field names must not collide with key fields: map keys may be field names)
}
type ShadowDoc struct {
	ShadowBase
	Name string
}

func shadowCell(v interface{}) []interface{} {
	d := v.(ShadowDoc)
	return []interface{}{d.Name, d.Note}
}

// NameClash: column names that equal OTHER fields' Go names. Label and
// Caption use each other's names as column names (swap); Alias is stored in
// a column named like the Go field Headline, which itself is stored in "hl".
type NameClash struct {
	Label    string `gorm:"column:Caption"`
	Caption  string `gorm:"column:Label"`
	Alias    string `gorm:"column:Headline"`
	Headline string `gorm:"column:hl"`
}

// cells in the order of the columns Caption, Label, Headline, hl
func nameClashCell(v interface{}) []interface{} {
	d := v.(NameClash)
	return []interface{}{d.Label, d.Caption, d.Alias, d.Headline}
}

// twinCell: home_ea0, home_eb0, work_ea0, work_eb0 of any Twins* value.
func twinCell(v interface{}) []interface{} {
	rv := reflect.ValueOf(v)
	var out []interface{}
	for _, half := range []string{"Home", "Work"} {
		h := rv.FieldByName(half)
		out = append(out, h.FieldByName("EA0").Int(), h.FieldByName("EB0").String())
	}
	return out
}

var twinCols = []string{"home_ea0", "home_eb0", "work_ea0", "work_eb0"}

// ---------------------------------------------------------------------------
// key configurations

type KeyConf struct {
	Name    string
	Fields  []reflect.StructField
	Cols    []string // db column names of the key, in field order
	AutoInc bool     // the (single) key is an auto-increment integer
	// RecKeys (composite configurations): the key of record i, one value per
	// key field; Neighbours: rows that are stored before every case (key
	// columns + a marker only). Together every proper subset of the key values
	// of each record is shared by a neighbour that sorts before it, so that a
	// read keyed by only part of the key returns another row.
	RecKeys    [][]interface{}
	Neighbours [][]interface{}
	// ExtraCols: further columns the configuration brings (foreign key column)
	ExtraCols []string
	// Relation: the configuration contains a belongs-to relation to Owner; such
	// models cannot be used through db.Table(name) (AutoMigrate would migrate
	// the related model into the same table): give the gorm.Config the
	// typegram.Namer instead, which maps the nameless StructOf type to TableName.
	Relation bool
}

// Owner is the parent of the belongs-to relation of RelKeys.
type Owner struct {
	ID   uint
	Name string
}

// TableName is the table of every nameless (reflect.StructOf) model under Namer.
const TableName = "t"

// Namer is the default naming strategy except that a struct type without a
// name (reflect.StructOf) gets the table TableName.
type Namer struct{ schema.NamingStrategy }

func (n Namer) TableName(str string) string {
	if str == "" {
		return TableName
	}
	return n.NamingStrategy.TableName(str)
}

// RelKeys are key configurations with a relation; they are not part of Keys
// (C03 does not enumerate them) but KeyByName finds them.
var RelKeys = []KeyConf{
	{Name: "autoid_belongs_to", Fields: []reflect.StructField{sf("ID", tUint, ""), sf("OwnerID", tUint, ""), sf("Owner", reflect.TypeOf(Owner{}), "")},
		Cols: []string{"id"}, AutoInc: true, ExtraCols: []string{"owner_id"}, Relation: true},
}

func sf(name string, t reflect.Type, gormTag string) reflect.StructField {
	f := reflect.StructField{Name: name, Type: t}
	if gormTag != "" {
		f.Tag = reflect.StructTag(`gorm:"` + gormTag + `"`)
	}
	return f
}

var (
	tString = reflect.TypeOf("")
	tInt    = reflect.TypeOf(int(0))
	tInt64  = reflect.TypeOf(int64(0))
	tUint   = reflect.TypeOf(uint(0))
	tTime   = reflect.TypeOf(time.Time{})
)

var Keys = []KeyConf{
	{Name: "autoid", Fields: []reflect.StructField{sf("ID", tUint, "")}, Cols: []string{"id"}, AutoInc: true},
	{Name: "strkey", Fields: []reflect.StructField{sf("Code", tString, "primaryKey")}, Cols: []string{"code"}},
	{Name: "composite", Fields: []reflect.StructField{sf("Code", tString, "primaryKey"), sf("Seq", tInt, "primaryKey")}, Cols: []string{"code", "seq"}},
	{Name: "nonid", Fields: []reflect.StructField{sf("Num", tInt64, "primaryKey")}, Cols: []string{"num"}, AutoInc: true},
}

// CompositeKeys: composite primary keys over int and string (2 and 3
// columns) with neighbour rows. Enumerated by C03 in addition to Keys.
var CompositeKeys = []KeyConf{
	{Name: "composite_int_string", Fields: []reflect.StructField{sf("Tenant", tInt, "primaryKey"), sf("Code", tString, "primaryKey")}, Cols: []string{"tenant", "code"},
		RecKeys:    [][]interface{}{{5, "m"}, {6, "m"}, {5, "n"}},
		Neighbours: [][]interface{}{{1, "m"}, {1, "n"}, {5, "a"}, {6, "a"}}},
	{Name: "composite_int_string_int64", Fields: []reflect.StructField{sf("Tenant", tInt, "primaryKey"), sf("Code", tString, "primaryKey"), sf("Seq", tInt64, "primaryKey")}, Cols: []string{"tenant", "code", "seq"},
		RecKeys: [][]interface{}{{5, "m", int64(7)}, {6, "m", int64(7)}, {5, "n", int64(8)}},
		Neighbours: [][]interface{}{{1, "m", int64(7)}, {1, "n", int64(8)}, {5, "a", int64(7)}, {5, "a", int64(8)}, {6, "a", int64(7)},
			{5, "m", int64(1)}, {6, "m", int64(1)}, {5, "n", int64(1)}, {1, "a", int64(7)}, {1, "a", int64(8)}, {5, "a", int64(1)}, {6, "a", int64(1)}, {1, "m", int64(1)}, {1, "n", int64(1)}}},
}

func KeyByName(n string) *KeyConf {
	for i := range CompositeKeys {
		if CompositeKeys[i].Name == n {
			return &CompositeKeys[i]
		}
	}
	for i := range Keys {
		if Keys[i].Name == n {
			return &Keys[i]
		}
	}
	for i := range RelKeys {
		if RelKeys[i].Name == n {
			return &RelKeys[i]
		}
	}
	return nil
}

// ---------------------------------------------------------------------------
// field kinds

const (
	AutoNone = iota
	AutoTime
	AutoSec
	AutoMilli
	AutoNano
)

// Val is one catalogue value of a kind.
type Val struct {
	Label string
	Go    interface{} // value of the field's Go type; nil = leave the zero value
}

// Spec is one field kind.
type Spec struct {
	Name string
	// Type per slot (differs per slot only for embedded structs).
	Types [2]reflect.Type
	// Tag returns the gorm tag for a slot ("%d" in the template = slot).
	TagTmpl string
	// FieldName overrides the default field name "F<slot>" (CreatedAt/UpdatedAt).
	FieldName string
	// ColTmpl are the db column names ("%d" = slot).
	ColTmpl []string
	Values  []Val
	// Cells converts a Go field value into the driver-level cell per column.
	// A nil function means "the Go value itself is the single cell".
	Cells func(v interface{}) []interface{}
	// OpaqueCells: driver-level bytes are not deterministic (gob with maps);
	// map cells are only checked for NULL-ness.
	OpaqueCells bool

	DefaultLit    interface{} // literal default: a zero field is expected to become this
	DBDefault     bool        // database-side default expression
	DBDefaultIs   interface{} // deterministic value of the DB default (nil = only non-zero is known)
	DBDefaultNull bool        // the DB default is NULL (default:null)
	Auto          int         // auto create/update time unit
	Serializer    string      // json | gob | unixtime
	MapRaw        bool        // in map creates pass the cells, not the Go value
	Unsigned      bool
	// NoColumn: the field is excluded from the table (`-`, `-:all`,
	// `->;-:migration`): nothing is stored, nothing is read back.
	NoColumn bool
	// GhostColTmpl: column names that must NEVER exist for a NoColumn field.
	GhostColTmpl []string
	// Alters: v2 variants of this field that ALTER one of its existing columns
	// (same Go field name, same columns; e.g. a default is added). They are
	// not part of Specs; SpecByName finds them.
	Alters []*Spec
	// DefaultCols (on a variant): columns that carry a default once the
	// variant is migrated; all other columns of the field carry none.
	DefaultCols []string
}

// GhostCols: see GhostColTmpl.
func (s *Spec) GhostCols(slot int) []string {
	out := make([]string, len(s.GhostColTmpl))
	for i, c := range s.GhostColTmpl {
		out[i] = subst(c, slot)
	}
	return out
}

func (s *Spec) Type(slot int) reflect.Type { return s.Types[slot] }

func (s *Spec) GoFieldName(slot int) string {
	if s.FieldName != "" {
		return s.FieldName
	}
	return fmt.Sprintf("F%d", slot)
}

func subst(t string, slot int) string { return strings.ReplaceAll(t, "%d", strconv.Itoa(slot)) }

func (s *Spec) Tag(slot int) string { return subst(s.TagTmpl, slot) }

func (s *Spec) Cols(slot int) []string {
	out := make([]string, len(s.ColTmpl))
	for i, c := range s.ColTmpl {
		out[i] = subst(c, slot)
	}
	return out
}

// OnlyOnce reports kinds that cannot occupy both slots (fixed field name).
func (s *Spec) OnlyOnce() bool { return s.FieldName != "" }

// StructField for a slot, with extra tag parts appended (C20).
func (s *Spec) StructField(slot int, extraTag string) reflect.StructField {
	tag := s.Tag(slot)
	if extraTag != "" {
		if tag != "" {
			tag += ";"
		}
		tag += extraTag
	}
	return sf(s.GoFieldName(slot), s.Types[slot], tag)
}

// CellsOf returns the driver-level cells of a Go field value.
func (s *Spec) CellsOf(v interface{}) []interface{} {
	if s.Cells != nil {
		return s.Cells(v)
	}
	return []interface{}{plainCell(v)}
}

// plainCell: the value database/sql would bind for a plain Go value.
func plainCell(v interface{}) interface{} {
	if v == nil {
		return nil
	}
	rv := reflect.ValueOf(v)
	if rv.Kind() == reflect.Ptr {
		if rv.IsNil() {
			return nil
		}
		return plainCell(rv.Elem().Interface())
	}
	if vl, ok := v.(driver.Valuer); ok {
		x, _ := vl.Value()
		return x
	}
	if rv.Kind() == reflect.Slice && rv.IsNil() {
		return nil
	}
	return v
}

// Zero reports whether v is the zero value of the slot's type.
func (s *Spec) Zero(slot int, v interface{}) bool {
	if v == nil {
		return true
	}
	return reflect.ValueOf(v).IsZero()
}

// GoValue returns the value as a reflect.Value of the slot's type.
func (s *Spec) GoValue(slot int, v interface{}) reflect.Value {
	if v == nil {
		return reflect.Zero(s.Types[slot])
	}
	rv := reflect.ValueOf(v)
	if rv.Type() != s.Types[slot] {
		// embedded kinds keep their catalogue as Emb0 values
		if rv.Type() == reflect.TypeOf(Emb0{}) && s.Types[slot] == reflect.TypeOf(Emb1{}) {
			e := v.(Emb0)
			return reflect.ValueOf(Emb1{EA1: e.EA0, EB1: e.EB0})
		}
		if rv.Type() == reflect.TypeOf(&Emb0{}) && s.Types[slot] == reflect.TypeOf(&Emb1{}) {
			e := v.(*Emb0)
			if e == nil {
				return reflect.Zero(s.Types[slot])
			}
			return reflect.ValueOf(&Emb1{EA1: e.EA0, EB1: e.EB0})
		}
		return rv.Convert(s.Types[slot])
	}
	return rv
}

func same(t reflect.Type) [2]reflect.Type { return [2]reflect.Type{t, t} }

func plain(name string, zero interface{}, vals ...Val) *Spec {
	return &Spec{Name: name, Types: same(reflect.TypeOf(zero)), ColTmpl: []string{"f%d"}, Values: vals}
}

func v(label string, g interface{}) Val { return Val{Label: label, Go: g} }

func pInt(i int) *int              { return &i }
func pInt64(i int64) *int64        { return &i }
func pBool(b bool) *bool           { return &b }
func pUint(u uint) *uint           { return &u }
func pFloat(f float64) *float64    { return &f }
func pStr(s string) *string        { return &s }
func pTime(t time.Time) *time.Time { return &t }
func pMoney(m Money) *Money        { return &m }
func pPayload(p Payload) *Payload  { return &p }

// Fixed times (all with nanoseconds where it matters).
var (
	T1    = time.Date(2021, 3, 4, 5, 6, 7, 123456789, time.UTC)
	TZone = time.Date(2019, 12, 31, 23, 59, 59, 999999999, time.FixedZone("X", 5*3600+1800))
	TOld  = time.Date(1955, 11, 5, 6, 15, 0, 1000, time.UTC)
	TWest = time.Date(2038, 1, 19, 3, 14, 8, 500, time.FixedZone("W", -8*3600))
)

func jsonCell(v interface{}) []interface{} {
	b, _ := json.Marshal(v)
	if string(b) == "null" {
		return []interface{}{nil}
	}
	return []interface{}{string(b)}
}

func gobCell(v interface{}) []interface{} {
	buf := new(bytes.Buffer)
	gob.NewEncoder(buf).Encode(v)
	return []interface{}{buf.Bytes()}
}

func unixCell(v interface{}) []interface{} {
	rv := reflect.ValueOf(v)
	if rv.Kind() == reflect.Ptr {
		if rv.IsNil() {
			return []interface{}{nil}
		}
		rv = rv.Elem()
	}
	var n int64
	switch rv.Kind() {
	case reflect.Uint, reflect.Uint64, reflect.Uint32:
		n = int64(rv.Uint())
	default:
		n = rv.Int()
	}
	return []interface{}{time.Unix(n, 0).UTC()}
}

func embCell(v interface{}) []interface{} {
	switch e := v.(type) {
	case Emb0:
		return []interface{}{int64(e.EA0), e.EB0}
	case Emb1:
		return []interface{}{int64(e.EA1), e.EB1}
	case *Emb0:
		if e == nil {
			return []interface{}{nil, nil}
		}
		return []interface{}{int64(e.EA0), e.EB0}
	case *Emb1:
		if e == nil {
			return []interface{}{nil, nil}
		}
		return []interface{}{int64(e.EA1), e.EB1}
	case nil:
		return []interface{}{int64(0), ""}
	}
	panic(fmt.Sprintf("embCell: %T", v))
}

var embTypes = [2]reflect.Type{reflect.TypeOf(Emb0{}), reflect.TypeOf(Emb1{})}
var embPtrTypes = [2]reflect.Type{reflect.TypeOf(&Emb0{}), reflect.TypeOf(&Emb1{})}

var embVals = []Val{v("zero", Emb0{}), v("full", Emb0{EA0: -3, EB0: "e'b"}), v("half", Emb0{EA0: 9})}

func with(s *Spec, f func(*Spec)) *Spec { f(s); return s }

// Specs is the catalogue of field kinds.
var Specs = buildSpecs()

func buildSpecs() []*Spec {
	var out []*Spec
	add := func(s *Spec) { out = append(out, s) }

	// --- plain scalar kinds ------------------------------------------------
	add(plain("int8", int8(0), v("0", int8(0)), v("1", int8(1)), v("-1", int8(-1)), v("max", int8(math.MaxInt8)), v("min", int8(math.MinInt8))))
	add(plain("int16", int16(0), v("0", int16(0)), v("255", int16(255)), v("max", int16(math.MaxInt16)), v("min", int16(math.MinInt16))))
	add(plain("int32", int32(0), v("0", int32(0)), v("65536", int32(65536)), v("max", int32(math.MaxInt32)), v("min", int32(math.MinInt32))))
	add(plain("int64", int64(0), v("0", int64(0)), v("2^53+1", int64(1<<53+1)), v("max", int64(math.MaxInt64)), v("min", int64(math.MinInt64))))
	add(plain("int", int(0), v("0", int(0)), v("-1", int(-1)), v("max", int(math.MaxInt64)), v("min", int(math.MinInt64))))
	add(with(plain("uint8", uint8(0), v("0", uint8(0)), v("1", uint8(1)), v("128", uint8(128)), v("max", uint8(math.MaxUint8))), func(s *Spec) { s.Unsigned = true }))
	add(with(plain("uint16", uint16(0), v("0", uint16(0)), v("256", uint16(256)), v("max", uint16(math.MaxUint16))), func(s *Spec) { s.Unsigned = true }))
	add(with(plain("uint32", uint32(0), v("0", uint32(0)), v("2^31", uint32(1<<31)), v("max", uint32(math.MaxUint32))), func(s *Spec) { s.Unsigned = true }))
	add(with(plain("uint64", uint64(0), v("0", uint64(0)), v("1", uint64(1)), v("2^53+1", uint64(1<<53+1)), v("maxint64", uint64(math.MaxInt64))), func(s *Spec) { s.Unsigned = true }))
	add(with(plain("uint", uint(0), v("0", uint(0)), v("7", uint(7)), v("maxint64", uint(math.MaxInt64))), func(s *Spec) { s.Unsigned = true }))
	add(plain("float32", float32(0), v("0", float32(0)), v("1.5", float32(1.5)), v("-0.1", float32(-0.1)), v("max", float32(math.MaxFloat32)), v("tiny", float32(math.SmallestNonzeroFloat32))))
	add(plain("float64", float64(0), v("0", float64(0)), v("-1.5", float64(-1.5)), v("0.1", float64(0.1)), v("3", float64(3)), v("max", float64(math.MaxFloat64)), v("tiny", float64(math.SmallestNonzeroFloat64))))
	add(plain("bool", false, v("false", false), v("true", true)))
	add(plain("string", "", v("empty", ""), v("a", "a"), v("quotes", "it's \"q\" `b` \\ ; --"), v("unicode", "héllo ✓ 日本 \U0001F600"), v("spaces", "  lead\ttrail \n"), v("numeric", "0123")))
	add(plain("bytes", []byte(nil), v("nil", []byte(nil)), v("empty", []byte{}), v("bin", []byte{0x00, 0xff, 0x27, 0x80}), v("text", []byte("text'q"))))
	add(plain("time", time.Time{}, v("zero", time.Time{}), v("utc-ns", T1), v("zone-ns", TZone), v("pre1970", TOld), v("west", TWest)))

	// --- pointers ----------------------------------------------------------
	add(plain("ptr_int", (*int)(nil), v("nil", (*int)(nil)), v("&0", pInt(0)), v("&-5", pInt(-5)), v("&max", pInt(math.MaxInt64))))
	add(plain("ptr_string", (*string)(nil), v("nil", (*string)(nil)), v("&empty", pStr("")), v("&quote", pStr("x'yé"))))
	add(plain("ptr_time", (*time.Time)(nil), v("nil", (*time.Time)(nil)), v("&zero", pTime(time.Time{})), v("&utc", pTime(T1)), v("&zone", pTime(TZone))))

	add(plain("ptr_bool", (*bool)(nil), v("nil", (*bool)(nil)), v("&false", pBool(false)), v("&true", pBool(true))))
	add(with(plain("ptr_uint", (*uint)(nil), v("nil", (*uint)(nil)), v("&0", pUint(0)), v("&9", pUint(9))), func(s *Spec) { s.Unsigned = true }))
	add(plain("ptr_float64", (*float64)(nil), v("nil", (*float64)(nil)), v("&0", pFloat(0)), v("&-2.5", pFloat(-2.5))))

	// --- sql.Null* ---------------------------------------------------------
	add(plain("null_bool", sql.NullBool{}, v("null", sql.NullBool{}), v("valid-false", sql.NullBool{Valid: true}), v("true", sql.NullBool{Bool: true, Valid: true})))
	add(plain("null_float64", sql.NullFloat64{}, v("null", sql.NullFloat64{}), v("valid-0", sql.NullFloat64{Valid: true}), v("1.5", sql.NullFloat64{Float64: 1.5, Valid: true})))
	add(plain("null_int64", sql.NullInt64{}, v("null", sql.NullInt64{}), v("0", sql.NullInt64{Valid: true}), v("-9", sql.NullInt64{Int64: -9, Valid: true}), v("max", sql.NullInt64{Int64: math.MaxInt64, Valid: true})))
	add(plain("null_string", sql.NullString{}, v("null", sql.NullString{}), v("empty", sql.NullString{Valid: true}), v("quote", sql.NullString{String: "q'é", Valid: true})))
	add(plain("null_time", sql.NullTime{}, v("null", sql.NullTime{}), v("valid-zero", sql.NullTime{Valid: true}), v("utc", sql.NullTime{Time: T1, Valid: true}), v("zone", sql.NullTime{Time: TZone, Valid: true})))

	// --- custom scanner/valuer ---------------------------------------------
	add(plain("money", Money{}, v("zero", Money{}), v("usd", Money{Units: 12345, Cur: "USD"}), v("neg", Money{Units: -1, Cur: "x:y'z"})))
	add(plain("ptr_money", (*Money)(nil), v("nil", (*Money)(nil)), v("&zero", pMoney(Money{})), v("&eur", pMoney(Money{Units: 7, Cur: "EUR"}))))
	add(plain("level", Level(0), v("0", Level(0)), v("3", Level(3)), v("-4", Level(-4))))

	// --- serializers -------------------------------------------------------
	js := func(name string, zero interface{}, vals ...Val) *Spec {
		s := plain(name, zero, vals...)
		s.TagTmpl = "serializer:json"
		s.Serializer = "json"
		s.Cells = jsonCell
		s.MapRaw = true
		return s
	}
	add(js("json_struct", Payload{}, v("zero", Payload{}), v("full", Payload{A: -1, B: "q'\"é", C: []string{"x", ""}}), v("emptyslice", Payload{A: 2, C: []string{}})))
	add(js("json_map", map[string]string(nil), v("nil", map[string]string(nil)), v("empty", map[string]string{}), v("two", map[string]string{"k": "v'", "é": ""})))
	add(js("json_slice", []string(nil), v("nil", []string(nil)), v("empty", []string{}), v("two", []string{"a", "b'c"})))
	add(js("json_ptr_struct", (*Payload)(nil), v("nil", (*Payload)(nil)), v("&zero", pPayload(Payload{})), v("&full", pPayload(Payload{A: 5, B: "p", C: []string{"z"}}))))
	add(with(plain("gob_struct", GobPayload{}, v("zero", GobPayload{}), v("full", GobPayload{N: -7, S: "g'é", M: map[string]int{"a": 1, "b": -2}}), v("one", GobPayload{N: 1})), func(s *Spec) {
		s.TagTmpl = "type:bytes;serializer:gob"
		s.Serializer = "gob"
		s.Cells = gobCell
		s.OpaqueCells = true
		s.MapRaw = true
	}))
	ux := func(name string, zero interface{}, vals ...Val) *Spec {
		s := plain(name, zero, vals...)
		s.TagTmpl = "serializer:unixtime;type:datetime"
		s.Serializer = "unixtime"
		s.Cells = unixCell
		s.MapRaw = true
		return s
	}
	add(ux("unixtime_int64", int64(0), v("0", int64(0)), v("1.6e9", int64(1600000000)), v("-1", int64(-1))))
	add(with(ux("unixtime_uint", uint(0), v("0", uint(0)), v("1.6e9", uint(1600000000))), func(s *Spec) { s.Unsigned = true }))
	add(ux("unixtime_ptr_int64", (*int64)(nil), v("nil", (*int64)(nil)), v("&0", pInt64(0)), v("&1.6e9", pInt64(1600000000)), v("&-1", pInt64(-1))))

	// customized serializer types (the value IS the serializer instance);
	// the empty secret is the NULL row
	add(with(plain("custom_serializer", Secret(""), v("empty=NULL", Secret("")), v("s1", Secret("s1")), v("s2", Secret("s'2é")), v("s3", Secret("s3"))), func(s *Spec) {
		s.Serializer = "custom"
		s.Cells = secretCell
		s.MapRaw = true
	}))
	add(with(plain("ptr_custom_serializer", (*Secret)(nil), v("&t1", pSecret("t1")), v("&empty=NULL", pSecret("")), v("&t2", pSecret("t'2")), v("&t3", pSecret("t3"))), func(s *Spec) {
		s.Serializer = "custom"
		s.Cells = secretCell
		s.MapRaw = true
	}))

	// --- embedded ----------------------------------------------------------
	add(&Spec{Name: "embedded", Types: embTypes, TagTmpl: "embedded", ColTmpl: []string{"ea%d", "eb%d"}, Values: embVals, Cells: embCell, MapRaw: true})
	add(&Spec{Name: "embedded_prefix", Types: embTypes, TagTmpl: "embedded;embeddedPrefix:p%d_", ColTmpl: []string{"p%d_ea%d", "p%d_eb%d"}, Values: embVals, Cells: embCell, MapRaw: true})
	add(&Spec{Name: "embedded_ptr", Types: embPtrTypes, TagTmpl: "embedded;embeddedPrefix:q%d_", ColTmpl: []string{"q%d_ea%d", "q%d_eb%d"},
		Values: []Val{v("nil", (*Emb0)(nil)), v("&zero", &Emb0{}), v("&full", &Emb0{EA0: 4, EB0: "pe"})}, Cells: embCell, MapRaw: true})

	// the same struct embedded twice with different prefixes
	twin := func(name string, zero interface{}, vals ...Val) *Spec {
		return &Spec{Name: name, Types: same(reflect.TypeOf(zero)), TagTmpl: "embedded", FieldName: "Tw", ColTmpl: twinCols, Values: vals, Cells: twinCell, MapRaw: true}
	}
	tw := twin("embedded_twins", Twins{}, v("zero", Twins{}), v("full", Twins{Home: Emb0{EA0: 1, EB0: "h'"}, Work: Emb0{EA0: 2, EB0: "w"}}),
		v("home-only", Twins{Home: Emb0{EA0: 3, EB0: "hh"}}), v("work-only", Twins{Work: Emb0{EA0: 4, EB0: "ww"}}))
	tw.Alters = []*Spec{
		with(twin("embedded_twins+default_on_home", TwinsH{}, v("full", TwinsH{Home: EmbD0{EA0: 1, EB0: "h'"}, Work: Emb0{EA0: 2, EB0: "w"}}), v("work-zero", TwinsH{Home: EmbD0{EA0: 5}})),
			func(s *Spec) { s.DefaultCols = []string{"home_ea0"} }),
		with(twin("embedded_twins+default_on_work", TwinsW{}, v("full", TwinsW{Home: Emb0{EA0: 1, EB0: "h'"}, Work: EmbD0{EA0: 2, EB0: "w"}}), v("home-zero", TwinsW{Work: EmbD0{EA0: 6}})),
			func(s *Spec) { s.DefaultCols = []string{"work_ea0"} }),
		with(twin("embedded_twins+default_on_both", TwinsB{}, v("full", TwinsB{Home: EmbD0{EA0: 1, EB0: "h'"}, Work: EmbD0{EA0: 2, EB0: "w"}})),
			func(s *Spec) { s.DefaultCols = []string{"home_ea0", "work_ea0"} }),
	}
	add(tw)

	// anonymously embedded struct whose column is shadowed by an outer field
	// declared after it (the hidden inner field stays empty: it has no column)
	add(&Spec{Name: "embedded_anonymous_shadowed", Types: same(reflect.TypeOf(ShadowDoc{})), TagTmpl: "embedded;embeddedPrefix:sh%d_", ColTmpl: []string{"sh%d_name", "sh%d_note"},
		Values: []Val{v("zero", ShadowDoc{}), v("outer", ShadowDoc{Name: "outer'n"}), v("both", ShadowDoc{ShadowBase: ShadowBase{Note: "c1"}, Name: "o2"}), v("note-only", ShadowDoc{ShadowBase: ShadowBase{Note: "c2"}})},
		Cells:  shadowCell, MapRaw: true})

	// column names colliding with other fields' Go names
	add(&Spec{Name: "embedded_column_names_equal_other_go_names", Types: same(reflect.TypeOf(NameClash{})), TagTmpl: "embedded", FieldName: "Clash",
		ColTmpl: []string{"Caption", "Label", "Headline", "hl"},
		Values:  []Val{v("zero", NameClash{}), v("all", NameClash{Label: "L'1", Caption: "C1", Alias: "A1", Headline: "H1"}), v("all2", NameClash{Label: "L2", Caption: "C2", Alias: "A2", Headline: "H2"}), v("two", NameClash{Label: "L3", Headline: "H3"})},
		Cells:   nameClashCell, MapRaw: true})

	// --- fields excluded from the table -------------------------------------
	for _, x := range [][2]string{{"ignored_migration", "->;-:migration"}, {"ignored_dash", "-"}, {"ignored_all", "-:all"}} {
		add(with(plain(x[0], "", v("empty", ""), v("x", "x")), func(s *Spec) {
			s.TagTmpl = x[1]
			s.ColTmpl = nil
			s.GhostColTmpl = []string{"f%d"}
			s.NoColumn = true
			s.MapRaw = true
			s.Cells = func(interface{}) []interface{} { return nil }
		}))
	}

	// --- column rename -----------------------------------------------------
	add(with(plain("column_rename", "", v("empty", ""), v("x", "x"), v("quote", "r'n")), func(s *Spec) {
		s.TagTmpl = "column:Ren_%d"
		s.ColTmpl = []string{"Ren_%d"}
	}))

	// --- literal defaults --------------------------------------------------
	add(with(plain("default_int", int(0), v("0", int(0)), v("5", int(5)), v("-1", int(-1))), func(s *Spec) {
		s.TagTmpl = "default:42"
		s.DefaultLit = int(42)
	}))
	add(with(plain("default_string", "", v("empty", ""), v("x", "x")), func(s *Spec) {
		s.TagTmpl = "default:'dflt'"
		s.DefaultLit = "dflt"
	}))
	add(with(plain("default_bool", false, v("false", false), v("true", true)), func(s *Spec) {
		s.TagTmpl = "default:true"
		s.DefaultLit = true
	}))
	add(with(plain("default_ptr_int", (*int)(nil), v("nil", (*int)(nil)), v("&0", pInt(0)), v("&8", pInt(8))), func(s *Spec) {
		s.TagTmpl = "default:42"
		s.DefaultLit = pInt(42)
	}))
	add(with(plain("default_uint8", uint8(0), v("0", uint8(0)), v("200", uint8(200))), func(s *Spec) {
		s.TagTmpl = "default:255"
		s.DefaultLit = uint8(255)
		s.Unsigned = true
	}))
	add(with(plain("default_float", float64(0), v("0", float64(0)), v("2.25", float64(2.25))), func(s *Spec) {
		s.TagTmpl = "default:1.5"
		s.DefaultLit = float64(1.5)
	}))

	add(with(plain("default_zero_int", int(0), v("0", int(0)), v("5", int(5))), func(s *Spec) {
		s.TagTmpl = "default:0"
		s.DefaultLit = int(0)
	}))
	add(with(plain("default_neg_int", int64(0), v("0", int64(0)), v("5", int64(5))), func(s *Spec) {
		s.TagTmpl = "default:-1"
		s.DefaultLit = int64(-1)
	}))
	add(with(plain("default_false", false, v("false", false), v("true", true)), func(s *Spec) {
		s.TagTmpl = "default:false"
		s.DefaultLit = false
	}))
	add(with(plain("default_words", "", v("empty", ""), v("x", "x")), func(s *Spec) {
		s.TagTmpl = "default:'two words'"
		s.DefaultLit = "two words"
	}))
	add(with(plain("default_empty_string", "", v("empty", ""), v("x", "x")), func(s *Spec) {
		s.TagTmpl = "default:''"
		s.DefaultLit = ""
	}))

	// --- database-side defaults -------------------------------------------
	add(with(plain("default_null_ptr_string", (*string)(nil), v("nil", (*string)(nil)), v("&x", pStr("x")), v("&empty", pStr(""))), func(s *Spec) {
		s.TagTmpl = "default:null"
		s.DBDefault = true
		s.DBDefaultNull = true
	}))
	add(with(plain("dbdefault_int", int64(0), v("0", int64(0)), v("5", int64(5)), v("-6", int64(-6))), func(s *Spec) {
		s.TagTmpl = "default:(abs(-7))"
		s.DBDefault = true
		s.DBDefaultIs = int64(7)
	}))
	add(with(plain("dbdefault_string", "", v("empty", ""), v("x", "x"), v("y'z", "y'z")), func(s *Spec) {
		s.TagTmpl = "default:(lower('ABC'))"
		s.DBDefault = true
		s.DBDefaultIs = "abc"
	}))
	add(with(plain("dbdefault_time", time.Time{}, v("zero", time.Time{}), v("utc-ns", T1), v("zone-ns", TZone)), func(s *Spec) {
		s.TagTmpl = "default:CURRENT_TIMESTAMP"
		s.DBDefault = true
	}))

	// --- auto create / update time ----------------------------------------
	auto := func(name string, zero interface{}, tag string, unit int, nonzero ...Val) {
		s := plain(name, zero, append([]Val{v("zero", zero)}, nonzero...)...)
		s.TagTmpl = tag
		s.Auto = unit
		add(s)
	}
	auto("autocreate_time", time.Time{}, "autoCreateTime", AutoTime, v("utc-ns", T1), v("zone-ns", TZone))
	auto("autocreate_sec", int64(0), "autoCreateTime", AutoSec, v("17", int64(17)), v("-3", int64(-3)))
	auto("autocreate_milli", int64(0), "autoCreateTime:milli", AutoMilli, v("17", int64(17)))
	auto("autocreate_nano", int64(0), "autoCreateTime:nano", AutoNano, v("17", int64(17)))
	auto("autoupdate_time", time.Time{}, "autoUpdateTime", AutoTime, v("utc-ns", T1))
	auto("autoupdate_sec", int64(0), "autoUpdateTime", AutoSec, v("17", int64(17)))
	auto("autoupdate_milli", int64(0), "autoUpdateTime:milli", AutoMilli, v("17", int64(17)))
	auto("autoupdate_nano", int64(0), "autoUpdateTime:nano", AutoNano, v("17", int64(17)))
	auto("autoupdate_uint_milli", uint64(0), "autoUpdateTime:milli", AutoMilli, v("17", uint64(17)))
	out[len(out)-1].Unsigned = true
	auto("autocreate_int32_sec", int32(0), "autoCreateTime", AutoSec, v("17", int32(17)))
	// triggered by the field name only
	auto("named_created_at", time.Time{}, "", AutoTime, v("utc-ns", T1))
	out[len(out)-1].FieldName = "CreatedAt"
	out[len(out)-1].ColTmpl = []string{"created_at"}
	auto("named_updated_at", int64(0), "", AutoSec, v("17", int64(17)))
	out[len(out)-1].FieldName = "UpdatedAt"
	out[len(out)-1].ColTmpl = []string{"updated_at"}
	return out
}

// addDefaultVariants gives every plain single-column kind without default,
// serializer or auto time a v2 variant in which a literal default is added to
// the existing column ("<kind>+default").
func addDefaultVariants(specs []*Spec) {
	for _, sp := range specs {
		if len(sp.ColTmpl) != 1 || sp.NoColumn || sp.Serializer != "" || sp.Auto != AutoNone || sp.DBDefault || sp.DefaultLit != nil || len(sp.Alters) > 0 {
			continue
		}
		var lit string
		var val interface{}
		t := sp.Types[0]
		switch t.Kind() {
		case reflect.Int, reflect.Int8, reflect.Int16, reflect.Int32, reflect.Int64:
			if _, isValuer := reflect.New(t).Interface().(driver.Valuer); isValuer {
				continue
			}
			lit, val = "7", reflect.ValueOf(7).Convert(t).Interface()
		case reflect.Uint, reflect.Uint8, reflect.Uint16, reflect.Uint32, reflect.Uint64:
			lit, val = "7", reflect.ValueOf(7).Convert(t).Interface()
		case reflect.Float32, reflect.Float64:
			lit, val = "2.5", reflect.ValueOf(2.5).Convert(t).Interface()
		case reflect.Bool:
			lit, val = "true", true
		case reflect.String:
			lit, val = "'dd'", "dd"
		default:
			continue
		}
		c := *sp
		c.Name = sp.Name + "+default"
		c.TagTmpl = sp.TagTmpl
		if c.TagTmpl != "" {
			c.TagTmpl += ";"
		}
		c.TagTmpl += "default:" + lit
		c.DefaultLit = val
		c.DefaultCols = sp.ColTmpl
		c.Alters = nil
		sp.Alters = []*Spec{&c}
	}
}

func init() { addDefaultVariants(Specs) }

func SpecByName(n string) *Spec {
	for _, s := range Specs {
		if s.Name == n {
			return s
		}
		for _, a := range s.Alters {
			if a.Name == n {
				return a
			}
		}
	}
	return nil
}

// ---------------------------------------------------------------------------
// model construction

// Model is one generated model type.
type Model struct {
	Key   *KeyConf
	Specs []*Spec  // slot i holds Specs[i]
	Extra []string // extra tag parts per slot (C20)
	Type  reflect.Type
}

const MarkerCol = "marker"

// Build builds the struct type: key fields, Marker, then the slots.
// markerTag is appended to the Marker field (C20 uses it for indexes).
func Build(key *KeyConf, specs []*Spec, extra []string, markerTag string) *Model {
	fields := append([]reflect.StructField{}, key.Fields...)
	fields = append(fields, sf("Marker", tString, markerTag))
	for i, s := range specs {
		e := ""
		if i < len(extra) {
			e = extra[i]
		}
		fields = append(fields, s.StructField(i, e))
	}
	return &Model{Key: key, Specs: specs, Extra: extra, Type: reflect.StructOf(fields)}
}

// New returns a pointer to a zero value of the model.
func (m *Model) New() reflect.Value { return reflect.New(m.Type) }

func (m *Model) Name() string {
	var n []string
	for _, s := range m.Specs {
		n = append(n, s.Name)
	}
	return m.Key.Name + "(" + strings.Join(n, ",") + ")"
}

// ---------------------------------------------------------------------------
// normalisation

// Norm renders a Go value canonically: times by instant (nanoseconds, zone
// dropped), pointers by content, nil and empty slices/maps distinguished,
// maps with sorted keys, float32 through float32.
func Norm(x interface{}) string {
	if x == nil {
		return "nil"
	}
	return normV(reflect.ValueOf(x))
}

func normV(rv reflect.Value) string {
	if !rv.IsValid() {
		return "nil"
	}
	if rv.Type() == tTime {
		t := rv.Interface().(time.Time)
		return "T" + t.UTC().Format(time.RFC3339Nano)
	}
	switch rv.Kind() {
	case reflect.Ptr, reflect.Interface:
		if rv.IsNil() {
			return "nil"
		}
		return "&" + normV(rv.Elem())
	case reflect.Bool:
		return strconv.FormatBool(rv.Bool())
	case reflect.Int, reflect.Int8, reflect.Int16, reflect.Int32, reflect.Int64:
		return strconv.FormatInt(rv.Int(), 10)
	case reflect.Uint, reflect.Uint8, reflect.Uint16, reflect.Uint32, reflect.Uint64:
		return strconv.FormatUint(rv.Uint(), 10)
	case reflect.Float32:
		return "f" + strconv.FormatFloat(rv.Float(), 'g', -1, 32)
	case reflect.Float64:
		return "f" + strconv.FormatFloat(rv.Float(), 'g', -1, 64)
	case reflect.String:
		return strconv.Quote(rv.String())
	case reflect.Slice:
		if rv.IsNil() {
			return "nil[]"
		}
		if rv.Type().Elem().Kind() == reflect.Uint8 {
			return "b" + strconv.Quote(string(rv.Bytes()))
		}
		fallthrough
	case reflect.Array:
		var p []string
		for i := 0; i < rv.Len(); i++ {
			p = append(p, normV(rv.Index(i)))
		}
		return "[" + strings.Join(p, ",") + "]"
	case reflect.Map:
		if rv.IsNil() {
			return "nil{}"
		}
		var p []string
		for _, k := range rv.MapKeys() {
			p = append(p, normV(k)+":"+normV(rv.MapIndex(k)))
		}
		sort.Strings(p)
		return "{" + strings.Join(p, ",") + "}"
	case reflect.Struct:
		var p []string
		for i := 0; i < rv.NumField(); i++ {
			if rv.Type().Field(i).PkgPath != "" {
				continue
			}
			p = append(p, rv.Type().Field(i).Name+":"+normV(rv.Field(i)))
		}
		return "{" + strings.Join(p, " ") + "}"
	}
	return fmt.Sprintf("?%v", rv.Interface())
}

// CellNorm renders a driver-level cell (as found in a result map, or as
// bound by database/sql) canonically by storage class: NULL, number, text or
// blob bytes, instant.
func CellNorm(x interface{}) string {
	if x == nil {
		return "NULL"
	}
	if _, ok := x.(driver.Valuer); ok {
		// gorm resolves valuers before it stores a cell in a result map; one
		// that is still there is a difference
		return fmt.Sprintf("?unresolved-valuer %T(%v)", x, x)
	}
	rv := reflect.ValueOf(x)
	if rv.Type() == tTime {
		return "T" + x.(time.Time).UTC().Format(time.RFC3339Nano)
	}
	switch rv.Kind() {
	case reflect.Ptr, reflect.Interface:
		if rv.IsNil() {
			return "NULL"
		}
		return CellNorm(rv.Elem().Interface())
	case reflect.Bool:
		if rv.Bool() {
			return "1"
		}
		return "0"
	case reflect.Int, reflect.Int8, reflect.Int16, reflect.Int32, reflect.Int64:
		return strconv.FormatInt(rv.Int(), 10)
	case reflect.Uint, reflect.Uint8, reflect.Uint16, reflect.Uint32, reflect.Uint64:
		return strconv.FormatUint(rv.Uint(), 10)
	case reflect.Float32, reflect.Float64:
		f := rv.Float()
		if f == math.Trunc(f) && math.Abs(f) < 1e15 {
			return strconv.FormatInt(int64(f), 10)
		}
		return strconv.FormatFloat(f, 'g', -1, 64)
	case reflect.String:
		return "s" + strconv.Quote(rv.String())
	case reflect.Slice:
		if rv.Type().Elem().Kind() == reflect.Uint8 {
			return "s" + strconv.Quote(string(rv.Bytes()))
		}
	}
	return fmt.Sprintf("?%T(%v)", x, x)
}
