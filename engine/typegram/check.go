package typegram

import (
	"fmt"
	"reflect"
	"time"
)

// FieldCtx describes how a record was created.
type FieldCtx struct {
	NoReturning bool // dialector without RETURNING: DB-side defaults cannot be back-filled
	FromMap     bool // created from a map: no default / auto-time substitution, no in-memory struct
	HasMem      bool // MemF is valid
	ClockLo     time.Time
	ClockHi     time.Time // window of the counter clock during Create (ClockHi < ClockLo = clock never read)
}

// AutoInstant converts an auto-time field value to the instant it denotes.
func AutoInstant(unit int, v interface{}) (time.Time, bool) {
	rv := reflect.ValueOf(v)
	var n int64
	switch rv.Kind() {
	case reflect.Struct:
		t, ok := v.(time.Time)
		return t, ok
	case reflect.Uint, reflect.Uint8, reflect.Uint16, reflect.Uint32, reflect.Uint64:
		n = int64(rv.Uint())
	case reflect.Int, reflect.Int8, reflect.Int16, reflect.Int32, reflect.Int64:
		n = rv.Int()
	default:
		return time.Time{}, false
	}
	switch unit {
	case AutoSec:
		return time.Unix(n, 0), true
	case AutoMilli:
		return time.UnixMilli(n), true
	case AutoNano:
		return time.Unix(0, n), true
	}
	return time.Time{}, false
}

// CheckField is the reference oracle for one field under test of one record:
// given = the value handed to Create, memF = the field of the in-memory record
// after Create, readF = the field read back from the database.
// It returns class (what was verified: "scan", "default:<type>",
// "returning", "autotime") and, on failure, a short kind and a detail text.
func CheckField(sp *Spec, slot int, given, memF, readF interface{}, ctx FieldCtx) (class, kind, detail string) {
	if sp.NoColumn {
		// nothing is stored: the fresh record has the zero value, the in-memory
		// record keeps what the caller put there
		if !reflect.ValueOf(readF).IsZero() {
			return "", "a field excluded from the table was read back non-zero", fmt.Sprintf("read %s", Norm(readF))
		}
		if ctx.HasMem && Norm(memF) != Norm(given) {
			return "", "Create changed a field excluded from the table", fmt.Sprintf("in memory %s given %s", Norm(memF), Norm(given))
		}
		return "nocolumn", "", ""
	}
	zero := sp.Zero(slot, given)
	subst := !ctx.FromMap && zero
	switch {
	case subst && sp.DefaultLit != nil:
		want := Norm(sp.DefaultLit)
		if Norm(readF) != want {
			return "", "zero field with literal default: stored value is not the default", fmt.Sprintf("read %s want %s", Norm(readF), want)
		}
		if ctx.HasMem && Norm(memF) != want {
			return "", "zero field with literal default: default not present on the in-memory record", fmt.Sprintf("in memory %s want %s", Norm(memF), want)
		}
		return "default:" + fmt.Sprintf("%T", sp.DefaultLit), "", ""
	case subst && sp.DBDefault:
		if sp.DBDefaultNull {
			if Norm(readF) != "nil" {
				return "", "zero field with database default NULL: stored value is not NULL", fmt.Sprintf("read %s", Norm(readF))
			}
		} else if sp.DBDefaultIs != nil {
			if Norm(readF) != Norm(sp.DBDefaultIs) {
				return "", "zero field with database default: stored value is not the default", fmt.Sprintf("read %s want %s", Norm(readF), Norm(sp.DBDefaultIs))
			}
		} else if reflect.ValueOf(readF).IsZero() {
			return "", "zero field with database default: stored value is zero", ""
		}
		if !ctx.NoReturning && ctx.HasMem {
			if Norm(memF) != Norm(readF) {
				return "", "database-generated default not present on the in-memory record", fmt.Sprintf("in memory %s row %s", Norm(memF), Norm(readF))
			}
			return "returning:**" + sp.Type(slot).String(), "", ""
		}
		return "dbdefault-stored", "", ""
	case subst && sp.Auto != AutoNone:
		t, ok := AutoInstant(sp.Auto, readF)
		if !ok || ctx.ClockHi.Before(ctx.ClockLo) || t.Before(ctx.ClockLo) || t.After(ctx.ClockHi) {
			return "", "auto create/update time: stored value is not the clock value in the field's unit", fmt.Sprintf("read %s, clock window [%s, %s]", Norm(readF), Norm(ctx.ClockLo), Norm(ctx.ClockHi))
		}
		if ctx.HasMem && Norm(memF) != Norm(readF) {
			return "", "auto create/update time not present on the in-memory record", fmt.Sprintf("in memory %s row %s", Norm(memF), Norm(readF))
		}
		return "autotime:time.Time", "", ""
	default:
		want := Norm(given)
		if Norm(readF) != want {
			return "", "value read back differs from the value created", fmt.Sprintf("read %s want %s", Norm(readF), want)
		}
		if ctx.HasMem && Norm(memF) != want {
			return "", "Create changed a non-zero in-memory field", fmt.Sprintf("in memory %s want %s", Norm(memF), want)
		}
		return "scan:**" + sp.Type(slot).String(), "", ""
	}
}

// StoredNorm is the normalised value expected in the row for a struct create
// (used to keep unique columns unique); "" when it cannot be predicted.
func StoredNorm(sp *Spec, slot int, given interface{}) string {
	zero := sp.Zero(slot, given)
	switch {
	case zero && sp.DefaultLit != nil:
		return Norm(sp.DefaultLit)
	case zero && sp.DBDefault:
		if sp.DBDefaultNull {
			return "nil"
		}
		if sp.DBDefaultIs != nil {
			return Norm(sp.DBDefaultIs)
		}
		return ""
	case zero && sp.Auto != AutoNone:
		return ""
	}
	return Norm(given)
}
