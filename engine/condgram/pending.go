package condgram

import (
	"encoding/json"
	"os"
	"path/filepath"
)

// ListedTags returns the tags that known_findings.json (or the file named by
// VERIF_KNOWN_FINDINGS) lists for a property, whatever their status.
func ListedTags(property string) map[string]bool {
	out := map[string]bool{}
	p := os.Getenv("VERIF_KNOWN_FINDINGS")
	if p == "" {
		root := os.Getenv("VERIF_ROOT")
		if root == "" {
			root = "/verif"
		}
		p = filepath.Join(root, "known_findings.json")
	}
	b, err := os.ReadFile(p)
	if err != nil {
		return out
	}
	var all struct {
		Findings []struct {
			Property string `json:"property"`
			Tag      string `json:"tag"`
		} `json:"findings"`
	}
	if json.Unmarshal(b, &all) != nil {
		return out
	}
	for _, f := range all.Findings {
		if f.Property == property {
			out[f.Tag] = true
		}
	}
	return out
}

// MarkPending sets Skip on every unit whose Pending tag is not yet listed for
// the property: a unit family that is known (by the thorough tier and by the
// harness author's report) to fail on the unchanged tree, but whose finding
// has not been entered in known_findings.json yet, is left out of the quick
// tier until it is listed - then it is enumerated like every other unit.
// Returns the labels of the skipped units (for the evidence file).
func MarkPending(us []*Unit, property, tier string) []string {
	var skipped []string
	if tier != "quick" {
		return skipped
	}
	listed := ListedTags(property)
	for _, u := range us {
		if u.Pending != "" && !listed[u.Pending] {
			u.Skip = true
			skipped = append(skipped, u.Label)
		}
	}
	return skipped
}
