package condgram

import (
	"fmt"
	"strings"

	"gorm.io/gorm"
)

// Call kinds.
const (
	KWhere = 0
	KOr    = 1
	KNot   = 2
)

var KindName = []string{"Where", "Or", "Not"}

// Call is one chained condition call: kind + unit index.
type Call struct {
	Kind int `json:"kind"`
	Unit int `json:"unit"`
}

// Apply performs the call on db. base is a condition-free handle used to
// build grouped sub-builders.
func Apply(db, base *gorm.DB, c Call, us []*Unit) *gorm.DB {
	args := us[c.Unit].Args(base)
	switch c.Kind {
	case KWhere:
		return db.Where(args[0], args[1:]...)
	case KOr:
		return db.Or(args[0], args[1:]...)
	default:
		return db.Not(args[0], args[1:]...)
	}
}

func CallString(c Call, us []*Unit) string {
	return fmt.Sprintf("%s(%s)", KindName[c.Kind], us[c.Unit].Label)
}

func ChainString(ch []Call, us []*Unit) string {
	var ps []string
	for _, c := range ch {
		ps = append(ps, CallString(c, us))
	}
	return strings.Join(ps, ".")
}

// Term is one operand of the chain-level combination.
type Term struct {
	Or bool // joined to its left neighbour with OR (else AND)
	N  *Node
}

// Terms turns calls (plus trailing AND-ed extra conditions, e.g. inline
// condition and model key) into the term list. Units that add no condition are
// skipped. ok=false if the chain uses something the property does not define
// (Not of a unit with NegOK=false).
func Terms(ch []Call, us []*Unit, extra ...*Node) (ts []Term, ok bool) {
	ok = true
	for _, c := range ch {
		u := us[c.Unit]
		if u.Tree == nil {
			continue
		}
		switch c.Kind {
		case KWhere:
			ts = append(ts, Term{false, u.Tree})
		case KOr:
			ts = append(ts, Term{true, u.Tree})
		case KNot:
			if !u.NegOK {
				ok = false
				continue
			}
			ts = append(ts, Term{false, u.Neg})
		}
	}
	for _, e := range extra {
		if e != nil {
			ts = append(ts, Term{false, e})
		}
	}
	return
}

// LeadingOr reports whether the first effective (condition-adding) call of the
// chain is Or: outside C02's quantifier.
func LeadingOr(ch []Call, us []*Unit) bool {
	for _, c := range ch {
		if us[c.Unit].Tree == nil {
			continue
		}
		return c.Kind == KOr
	}
	return false
}

// Combine gives the chain its reference meaning: terms joined left to right
// with AND / OR under standard SQL precedence (AND binds tighter). nil = no
// condition.
func Combine(ts []Term) *Node {
	if len(ts) == 0 {
		return nil
	}
	var groups [][]*Node
	for i, t := range ts {
		if i == 0 || t.Or {
			groups = append(groups, nil)
		}
		groups[len(groups)-1] = append(groups[len(groups)-1], t.N)
	}
	var ors []*Node
	for _, g := range groups {
		if len(g) == 1 {
			ors = append(ors, g[0])
		} else {
			ors = append(ors, And(g...))
		}
	}
	if len(ors) == 1 {
		return ors[0]
	}
	return Or(ors...)
}

// FoldLeft is the "other precedence" reading no. 1: strictly left to right,
// ((t1 op t2) op t3) ..., ignoring that AND binds tighter than OR.
func FoldLeft(ts []Term) *Node {
	if len(ts) == 0 {
		return nil
	}
	acc := ts[0].N
	for _, t := range ts[1:] {
		if t.Or {
			acc = Or(acc, t.N)
		} else {
			acc = And(acc, t.N)
		}
	}
	return acc
}

// Flattened is the "other precedence" reading no. 2: every unit written
// without the parentheses that make it indivisible - its top-level members
// spliced into the chain with the unit's own connective, a Not applying to the
// first member only - and the whole parsed with standard precedence.
func Flattened(ch []Call, us []*Unit, extra ...*Node) *Node {
	var ts []Term
	for _, c := range ch {
		u := us[c.Unit]
		if u.Tree == nil {
			continue
		}
		mem := u.Members
		conn := u.Conn
		if conn != "and" && conn != "or" {
			mem = []*Node{u.Tree}
		}
		for i, m := range mem {
			n := m
			if c.Kind == KNot && i == 0 {
				n = Not(m)
			}
			or := c.Kind == KOr
			if i > 0 {
				or = conn == "or"
			}
			ts = append(ts, Term{or, n})
		}
	}
	for _, e := range extra {
		if e != nil {
			ts = append(ts, Term{false, e})
		}
	}
	return Combine(ts)
}

// Tags computes the input-side tags of a chain (plus optional inline unit,
// -1 = none).
func Tags(ch []Call, inline int, us []*Unit) []string {
	var tags []string
	seen := map[string]bool{}
	add := func(t string) {
		if !seen[t] {
			seen[t] = true
			tags = append(tags, t)
		}
	}
	visit := func(u *Unit, kind int) {
		// the AND/OR keyword of a raw fragment is delimited by something other
		// than a plain space on both sides, and the fragment is an OR (any
		// position) or is negated by Not
		if u.OddOr || (kind == KNot && (u.OddAnd || u.OddOr)) {
			add("raw-unit-andor-nonspace-delimiter")
		}
		// a named-argument string (clause.NamedExpr) holding AND/OR, handed to
		// Or() (OR inside) or Not() (AND or OR inside)
		// named arguments, but the text has a '?' inside a quoted literal: gorm
		// classifies the string as positional and drops that '?'
		if u.Render == "named-q" {
			add("named-args-question-mark-in-literal")
		}
		nconn := u.NamedConn
		if u.Render == "named" {
			nconn = u.Conn
		}
		if u.NamedWrapped || (kind == KOr && nconn == "or") || (kind == KNot && (nconn == "or" || nconn == "and")) {
			add("named-unit-andor-under-or-not")
		}
		// Or(db.Or("... OR ...")): the raw fragment sits two one-element wrappers deep
		if kind == KOr && u.WrappedRawOr {
			add("or-call-with-single-or-group-raw-or")
		}
	}
	for _, c := range ch {
		visit(us[c.Unit], c.Kind)
	}
	if inline >= 0 {
		visit(us[inline], KWhere)
	}
	return tags
}
