// Package condgram is the condition grammar shared by the C02 and C08
// harnesses: a table with NULLs, condition trees with an SQL three-valued
// reference evaluator (this file), the catalogue of condition *units* in every
// gorm rendering (units.go) and chains of Where/Or/Not calls with their
// reference meaning (chain.go).
//
// Nothing in this package looks at SQL text: the reference meaning of a unit is
// attached to the *input* (the Go values handed to gorm), and compared with the
// rows the database returns.
package condgram

import (
	"fmt"
	"sort"
	"strings"
)

// TV is an SQL truth value.
type TV int8

const (
	F TV = iota
	U
	T
)

func (t TV) String() string { return [...]string{"F", "U", "T"}[t] }

func and3(a, b TV) TV {
	if a < b {
		return a
	}
	return b
}
func or3(a, b TV) TV {
	if a > b {
		return a
	}
	return b
}
func not3(a TV) TV { return T - a }

// Row is one row of the condition table t(id, a, b, s).
type Row struct {
	ID int
	A  *int
	B  *int
	S  *string
}

func ip(i int) *int       { return &i }
func sp(s string) *string { return &s }

// IntVals / StrVals are the value domains of the nullable columns (nil = NULL).
var IntVals = []*int{ip(1), ip(2), nil}

// The second text value contains the characters that steer gorm's
// classification of raw strings ('@' = named argument, '?' = placeholder), so
// that conditions mentioning them in a quoted literal select real rows.
const YVal = "y@v?w"

var StrVals = []*string{sp("x"), sp(YVal), nil}

// Rows27 returns all 27 combinations of a,b in {1,2,NULL}, s in {'x','y@v?w',NULL};
// id = 1 + 9*ai + 3*bi + si.
func Rows27() []Row {
	var out []Row
	for ai, a := range IntVals {
		for bi, b := range IntVals {
			for si, s := range StrVals {
				out = append(out, Row{ID: 1 + 9*ai + 3*bi + si, A: a, B: b, S: s})
			}
		}
	}
	return out
}

// Node is a condition tree. Op: "atom", "and", "or", "not".
type Node struct {
	Op   string
	Kids []*Node
	// atom
	Col string      // id, a, b, s
	Cmp string      // = <> < > in like isnull
	Val interface{} // int | string | []int | []string | nil
}

func Atom(col, cmp string, val interface{}) *Node {
	return &Node{Op: "atom", Col: col, Cmp: cmp, Val: val}
}
func And(k ...*Node) *Node { return &Node{Op: "and", Kids: k} }
func Or(k ...*Node) *Node  { return &Node{Op: "or", Kids: k} }
func Not(k *Node) *Node    { return &Node{Op: "not", Kids: []*Node{k}} }

// AllFalse is the documented reading of Not over an AND-combined unit: every
// member condition is false.
func AllFalse(members ...*Node) *Node {
	ks := make([]*Node, len(members))
	for i, m := range members {
		ks[i] = Not(m)
	}
	if len(ks) == 1 {
		return ks[0]
	}
	return And(ks...)
}

func (n *Node) String() string {
	switch n.Op {
	case "atom":
		switch n.Cmp {
		case "isnull":
			return n.Col + " IS NULL"
		case "in":
			return fmt.Sprintf("%s IN %v", n.Col, n.Val)
		case "like":
			return fmt.Sprintf("%s LIKE %q", n.Col, n.Val)
		}
		if s, ok := n.Val.(string); ok {
			return fmt.Sprintf("%s %s '%s'", n.Col, n.Cmp, s)
		}
		return fmt.Sprintf("%s %s %v", n.Col, n.Cmp, n.Val)
	case "not":
		return "NOT(" + n.Kids[0].String() + ")"
	}
	var ps []string
	for _, k := range n.Kids {
		ps = append(ps, k.String())
	}
	return "(" + strings.Join(ps, " "+strings.ToUpper(n.Op)+" ") + ")"
}

// likeMatch implements LIKE with % and _ (ASCII case-insensitive, as SQLite).
func likeMatch(pat, s string) bool {
	pat, s = strings.ToLower(pat), strings.ToLower(s)
	var rec func(p, t int) bool
	rec = func(p, t int) bool {
		for p < len(pat) {
			switch pat[p] {
			case '%':
				for k := t; k <= len(s); k++ {
					if rec(p+1, k) {
						return true
					}
				}
				return false
			case '_':
				if t >= len(s) {
					return false
				}
			default:
				if t >= len(s) || s[t] != pat[p] {
					return false
				}
			}
			p++
			t++
		}
		return t == len(s)
	}
	return rec(0, 0)
}

func b2tv(b bool) TV {
	if b {
		return T
	}
	return F
}

func (n *Node) evalAtom(r Row) TV {
	var iv *int
	var sv *string
	isStr := false
	switch n.Col {
	case "id":
		iv = &r.ID
	case "a":
		iv = r.A
	case "b":
		iv = r.B
	case "s":
		sv = r.S
		isStr = true
	default:
		panic("condgram: unknown column " + n.Col)
	}
	null := (isStr && sv == nil) || (!isStr && iv == nil)
	if n.Cmp == "isnull" {
		return b2tv(null)
	}
	if null {
		return U
	}
	if isStr {
		s := *sv
		switch n.Cmp {
		case "=":
			return b2tv(s == n.Val.(string))
		case "<>":
			return b2tv(s != n.Val.(string))
		case "<":
			return b2tv(s < n.Val.(string))
		case ">":
			return b2tv(s > n.Val.(string))
		case "like":
			return b2tv(likeMatch(n.Val.(string), s))
		case "in":
			for _, v := range n.Val.([]string) {
				if v == s {
					return T
				}
			}
			return F
		}
	} else {
		i := *iv
		switch n.Cmp {
		case "=":
			return b2tv(i == n.Val.(int))
		case "<>":
			return b2tv(i != n.Val.(int))
		case "<":
			return b2tv(i < n.Val.(int))
		case ">":
			return b2tv(i > n.Val.(int))
		case "in":
			for _, v := range n.Val.([]int) {
				if v == i {
					return T
				}
			}
			return F
		}
	}
	panic(fmt.Sprintf("condgram: bad atom %s %s %v", n.Col, n.Cmp, n.Val))
}

// Eval evaluates the tree on a row under SQL three-valued logic.
func (n *Node) Eval(r Row) TV {
	switch n.Op {
	case "atom":
		return n.evalAtom(r)
	case "not":
		return not3(n.Kids[0].Eval(r))
	case "and":
		v := T
		for _, k := range n.Kids {
			v = and3(v, k.Eval(r))
		}
		return v
	case "or":
		v := F
		for _, k := range n.Kids {
			v = or3(v, k.Eval(r))
		}
		return v
	}
	panic("condgram: bad node op " + n.Op)
}

// Select returns the sorted ids of the rows on which n is TRUE (nil n = all).
func Select(n *Node, rows []Row) []int {
	var ids []int
	for _, r := range rows {
		if n == nil || n.Eval(r) == T {
			ids = append(ids, r.ID)
		}
	}
	sort.Ints(ids)
	return ids
}

// IDs renders an id set canonically.
func IDs(ids []int) string {
	c := append([]int{}, ids...)
	sort.Ints(c)
	return fmt.Sprint(c)
}
