package condgram

import (
	"database/sql"
	"fmt"
	"strings"

	"gorm.io/gorm"
	"gorm.io/gorm/clause"
)

// Unit is one condition in one concrete rendering (the Go values handed to
// Where / Or / Not / an inline finisher argument) together with its reference
// meaning.
type Unit struct {
	Idx    int
	Label  string // Go-source-like text of the arguments
	Render string // raw rawargs kv map struct clause group named pkval empty
	Conn   string // atom and or not mixed empty
	Tree   *Node  // nil: the unit adds no condition (empty map, zero struct)
	// Neg is the meaning of Not(unit): logical negation for raw/single/OR
	// units, "every member false" for multi-field map/struct/AND-combined units.
	// NegOK=false: the property statement does not define it (excluded).
	Neg   *Node
	NegOK bool
	// Members are the top-level operands (joined by Conn) - used only to compute
	// the "other precedence" readings for the non-vacuity counter.
	Members []*Node
	// OddOr / OddAnd: the unit contains a raw SQL fragment whose top-level OR /
	// AND keyword is delimited by something other than a plain space on both
	// sides (tab, newline, parenthesis). Input-side fact, used for tags only.
	OddOr, OddAnd bool
	// AllRawAndGroup: grouped sub-builder (or clause.And) whose members are all
	// raw SQL strings combined with AND. The property statement would read
	// Not(group) as "every member false", but gorm's own test suite
	// (tests/query_test.go TestNot, clause/where_test.go) pins the rendering
	// NOT (x AND y) for exactly this shape, i.e. negation as a whole - the
	// member-wise reading applies as soon as one member is a negatable clause
	// expression. The reference follows the pinned reading for this shape.
	AllRawAndGroup bool
	// RawTop: what gorm receives is one raw SQL fragment (clause.Expr or
	// clause.NamedExpr) - string forms, clause.Expr, a group holding one string.
	RawTop bool
	// Unqualified: renders its columns without a table qualifier (usable when
	// the columns belong to a joined table rather than the statement's table).
	Unqualified bool
	// NamedWrapped: a single-call group db.Or(x) / db.Not(x) whose x is a
	// named-argument string holding AND/OR (the string is handed to Or()/Not()
	// inside the group). NamedConn: a transparent group db.Where(x) around such
	// a string ("or"/"and"). WrappedRawOr: db.Or(x) around a raw fragment that
	// holds an OR (any spelling). Input-side facts, used for tags only.
	NamedWrapped bool
	NamedConn    string
	WrappedRawOr bool
	// Pending: input-side tag of a finding this unit family is known to trigger
	// on the unchanged tree; Skip: left out of the quick enumeration until that
	// tag is listed in known_findings.json (see MarkPending).
	Pending string
	Skip    bool
	// Ext: member of a large family of near-identical forms (single-call groups
	// around every raw spelling); quick tiers pair these only with the
	// representative units in 2-call chains, thorough tiers with everything.
	Ext  bool
	Rep  int // 1: class representative (quick 3-chains), 2: thorough 3-chains, 0: neither
	Args func(base *gorm.DB) []interface{}
}

func (u *Unit) Class() string { return u.Render + "/" + u.Conn }

// Cols / ColsP are model-independent condition structs (gorm resolves their
// columns against the statement's current table).
type Cols struct {
	A int
	B int
	S string
}
type ColsP struct {
	A *int
	B *int
	S *string
}

// Options of the catalogue.
type Options struct {
	// ModelStruct builds a pointer to the harness' own model struct with the
	// given non-nil fields set (rendering "Where(&Model{A: 1})").
	ModelStruct func(a, b *int, s *string) interface{}
	ModelName   string
}

type atomSpec struct {
	n     *Node
	raw   string
	q     string
	qargs []interface{}
	qlab  string
	expr  clause.Expression
	elab  string
	mapOK bool
	mapV  interface{}
	mlab  string
}

func lit(v interface{}) string {
	switch t := v.(type) {
	case nil:
		return "nil"
	case string:
		return fmt.Sprintf("%q", t)
	case []int:
		return strings.ReplaceAll(fmt.Sprintf("[]int{%v}", strings.Trim(fmt.Sprint(t), "[]")), " ", ",")
	case []string:
		var q []string
		for _, s := range t {
			q = append(q, fmt.Sprintf("%q", s))
		}
		return "[]string{" + strings.Join(q, ",") + "}"
	}
	return fmt.Sprint(v)
}

func sqlLit(v interface{}) string {
	switch t := v.(type) {
	case string:
		return "'" + t + "'"
	case []int:
		var q []string
		for _, i := range t {
			q = append(q, fmt.Sprint(i))
		}
		return "(" + strings.Join(q, ",") + ")"
	case []string:
		var q []string
		for _, s := range t {
			q = append(q, "'"+s+"'")
		}
		return "(" + strings.Join(q, ",") + ")"
	}
	return fmt.Sprint(v)
}

func toIfaces(v interface{}) []interface{} {
	var out []interface{}
	switch t := v.(type) {
	case []int:
		for _, i := range t {
			out = append(out, i)
		}
	case []string:
		for _, s := range t {
			out = append(out, s)
		}
	}
	return out
}

func mkAtom(col, cmp string, val interface{}) atomSpec {
	a := atomSpec{n: Atom(col, cmp, val)}
	switch cmp {
	case "isnull":
		a.raw = col + " IS NULL"
		a.expr = clause.Eq{Column: col, Value: nil}
		a.elab = fmt.Sprintf("clause.Eq{%q,nil}", col)
		a.mapOK, a.mapV, a.mlab = true, nil, "nil"
	case "in":
		a.raw = col + " IN " + sqlLit(val)
		a.q, a.qargs = col+" IN ?", []interface{}{val}
		a.qlab = fmt.Sprintf("%q,%s", a.q, lit(val))
		a.expr = clause.IN{Column: col, Values: toIfaces(val)}
		a.elab = fmt.Sprintf("clause.IN{%q,%s}", col, lit(val))
		a.mapOK, a.mapV, a.mlab = true, val, lit(val)
	case "like":
		a.raw = col + " LIKE " + sqlLit(val)
		a.q, a.qargs = col+" LIKE ?", []interface{}{val}
		a.qlab = fmt.Sprintf("%q,%s", a.q, lit(val))
		a.expr = clause.Like{Column: col, Value: val}
		a.elab = fmt.Sprintf("clause.Like{%q,%s}", col, lit(val))
	default:
		a.raw = col + " " + cmp + " " + sqlLit(val)
		a.q, a.qargs = col+" "+cmp+" ?", []interface{}{val}
		a.qlab = fmt.Sprintf("%q,%s", a.q, lit(val))
		switch cmp {
		case "=":
			a.expr = clause.Eq{Column: col, Value: val}
			a.elab = fmt.Sprintf("clause.Eq{%q,%s}", col, lit(val))
			a.mapOK, a.mapV, a.mlab = true, val, lit(val)
		case "<>":
			a.expr = clause.Neq{Column: col, Value: val}
			a.elab = fmt.Sprintf("clause.Neq{%q,%s}", col, lit(val))
		case "<":
			a.expr = clause.Lt{Column: col, Value: val}
			a.elab = fmt.Sprintf("clause.Lt{%q,%s}", col, lit(val))
		case ">":
			a.expr = clause.Gt{Column: col, Value: val}
			a.elab = fmt.Sprintf("clause.Gt{%q,%s}", col, lit(val))
		}
	}
	return a
}

// separator catalogue: how the AND / OR keyword of a raw two-operand unit is
// written. %s is the keyword.
type sepSpec struct {
	fmt  string // applied to the keyword in its chosen case
	kw   func(string) string
	odd  bool
	name string
}

func up(s string) string  { return strings.ToUpper(s) }
func low(s string) string { return strings.ToLower(s) }
func cap1(s string) string {
	return strings.ToUpper(s[:1]) + strings.ToLower(s[1:])
}

var seps = []sepSpec{
	{" %s ", up, false, "space-upper"},
	{" %s ", low, false, "space-lower"},
	{" %s ", cap1, false, "space-mixed"},
	{"  %s  ", up, false, "double-space"},
	{"\t%s\t", up, true, "tab"},
	{" %s\n", up, true, "space-newline"},
	{"\n%s ", low, true, "newline-space"},
	{")%s(", up, true, "paren"},
}

// Catalogue builds the full, deterministic unit catalogue.
func Catalogue(opt Options) []*Unit {
	var us []*Unit
	add := func(u *Unit) *Unit {
		u.Idx = len(us)
		if u.Render == "raw" || u.Render == "rawargs" || u.Render == "named" || strings.HasPrefix(u.Label, "clause.Expr{") ||
			strings.HasPrefix(u.Label, "gorm.Expr(") || u.Label == `db.Where("a = 1 OR b = 1")` {
			u.RawTop = true
		}
		if u.Members == nil && u.Tree != nil {
			u.Members = []*Node{u.Tree}
		}
		us = append(us, u)
		return u
	}
	static := func(args ...interface{}) func(*gorm.DB) []interface{} {
		return func(*gorm.DB) []interface{} { return args }
	}
	mname := opt.ModelName
	if mname == "" {
		mname = "Model"
	}

	A1 := mkAtom("a", "=", 1)
	B1 := mkAtom("b", "=", 1)
	SX := mkAtom("s", "=", "x")
	B2 := mkAtom("b", "=", 2)
	ANe := mkAtom("a", "<>", 1)
	BLt := mkAtom("b", "<", 2)
	AGt := mkAtom("a", ">", 1)
	AIn := mkAtom("a", "in", []int{2, 3})
	SIn := mkAtom("s", "in", []string{"x", "z"})
	SLk := mkAtom("s", "like", "x%")
	ANull := mkAtom("a", "isnull", nil)
	SNull := mkAtom("s", "isnull", nil)
	atoms := []atomSpec{A1, B1, SX, B2, ANe, BLt, AGt, AIn, SIn, SLk, ANull, SNull}

	// ---------------------------------------------------------------- atoms
	for i, a := range atoms {
		a := a
		u := add(&Unit{Label: fmt.Sprintf("%q", a.raw), Render: "raw", Conn: "atom", Tree: a.n, Neg: Not(a.n), NegOK: true,
			Unqualified: true, Args: static(a.raw)})
		if i == 0 {
			u.Rep = 1
		} else if i == 10 {
			u.Rep = 2
		}
		if a.q != "" {
			u := add(&Unit{Label: a.qlab, Render: "rawargs", Conn: "atom", Tree: a.n, Neg: Not(a.n), NegOK: true,
				Unqualified: true, Args: static(append([]interface{}{a.q}, a.qargs...)...)})
			if i == 7 {
				u.Rep = 2
			}
		}
		u = add(&Unit{Label: a.elab, Render: "clause", Conn: "atom", Tree: a.n, Neg: Not(a.n), NegOK: true,
			Unqualified: true, Args: static(a.expr)})
		if i == 4 || i == 9 {
			u.Rep = 2
		}
		if a.mapOK {
			u := add(&Unit{Label: fmt.Sprintf("map{%q:%s}", a.n.Col, a.mlab), Render: "map", Conn: "atom", Tree: a.n, Neg: Not(a.n), NegOK: true,
				Unqualified: true, Args: static(map[string]interface{}{a.n.Col: a.mapV})})
			if i == 10 || i == 7 {
				u.Rep = 2
			}
			// two-argument form Where("a", v)
			add(&Unit{Label: fmt.Sprintf("%q,%s", a.n.Col, a.mlab), Render: "kv", Conn: "atom", Tree: a.n, Neg: Not(a.n), NegOK: true,
				Unqualified: true, Args: static(a.n.Col, a.mapV)})
		}
	}
	// IN (?) with parentheses in the template
	add(&Unit{Label: `"a IN (?)",[]int{2,3}`, Render: "rawargs", Conn: "atom", Tree: AIn.n, Neg: Not(AIn.n), NegOK: true,
		Unqualified: true, Args: static("a IN (?)", []int{2, 3})})
	// named arguments, single atom
	add(&Unit{Label: `"a = @v",sql.Named("v",1)`, Render: "named", Conn: "atom", Tree: A1.n, Neg: Not(A1.n), NegOK: true,
		Unqualified: true, Args: static("a = @v", sql.Named("v", 1))})
	add(&Unit{Label: `"s = @v",map{"v":"x"}`, Render: "named", Conn: "atom", Tree: SX.n, Neg: Not(SX.n), NegOK: true,
		Unqualified: true, Args: static("s = @v", map[string]interface{}{"v": "x"})})
	add(&Unit{Label: `"a IN @v",sql.Named("v",[]int{2,3})`, Render: "named", Conn: "atom", Tree: AIn.n, Neg: Not(AIn.n), NegOK: true,
		Unqualified: true, Args: static("a IN @v", sql.Named("v", []int{2, 3}))})
	// map[string]string
	add(&Unit{Label: `map[string]string{"s":"x"}`, Render: "map", Conn: "atom", Tree: SX.n, Neg: Not(SX.n), NegOK: true,
		Unqualified: true, Args: static(map[string]string{"s": "x"})})
	// struct, single non-zero field (zero fields are ignored)
	add(&Unit{Label: `Cols{A:1}`, Render: "struct", Conn: "atom", Tree: A1.n, Neg: Not(A1.n), NegOK: true, Rep: 1,
		Args: static(Cols{A: 1})})
	add(&Unit{Label: `&Cols{S:"x"}`, Render: "struct", Conn: "atom", Tree: SX.n, Neg: Not(SX.n), NegOK: true,
		Args: static(&Cols{S: "x"})})
	add(&Unit{Label: `&ColsP{B:&2}`, Render: "struct", Conn: "atom", Tree: B2.n, Neg: Not(B2.n), NegOK: true,
		Args: static(&ColsP{B: ip(2)})})
	if opt.ModelStruct != nil {
		add(&Unit{Label: `&` + mname + `{A:&1}`, Render: "struct", Conn: "atom", Tree: A1.n, Neg: Not(A1.n), NegOK: true, Rep: 2,
			Args: func(*gorm.DB) []interface{} { return []interface{}{opt.ModelStruct(ip(1), nil, nil)} }})
	}

	// ---------------------------------------------------- raw, two operands
	type pair struct{ x, y atomSpec }
	P1 := pair{A1, B1}
	P2 := pair{SX, B2}
	P3 := pair{ANull, SX}
	bin := func(conn string, x, y *Node) (*Node, *Node, []*Node) {
		if conn == "and" {
			t := And(x, y)
			return t, Not(t), []*Node{x, y}
		}
		t := Or(x, y)
		return t, Not(t), []*Node{x, y}
	}
	for _, conn := range []string{"or", "and"} {
		for si, sp := range seps {
			kw := sp.kw(conn)
			var text string
			if sp.name == "paren" {
				text = "(" + P1.x.raw + fmt.Sprintf(sp.fmt, kw) + P1.y.raw + ")"
			} else {
				text = P1.x.raw + fmt.Sprintf(sp.fmt, kw) + P1.y.raw
			}
			t, neg, mem := bin(conn, P1.x.n, P1.y.n)
			u := add(&Unit{Label: fmt.Sprintf("%q", text), Render: "raw", Conn: conn, Tree: t, Neg: neg, NegOK: true, Members: mem,
				Unqualified: true, Args: static(text)})
			if sp.odd {
				u.OddOr, u.OddAnd = conn == "or", conn == "and"
			}
			if si == 0 {
				u.Rep = 1
			}
			if sp.name == "space-newline" && conn == "or" {
				u.Rep = 1
			}
			if sp.name == "space-lower" || sp.name == "tab" {
				u.Rep = 2
			}
		}
		// redundant parentheses
		KW := up(conn)
		for _, text := range []string{
			"(" + P1.x.raw + " " + KW + " " + P1.y.raw + ")",
			"((" + P1.x.raw + ") " + KW + " (" + P1.y.raw + "))",
			"(" + P1.x.raw + ") " + KW + " (" + P1.y.raw + ")",
		} {
			t, neg, mem := bin(conn, P1.x.n, P1.y.n)
			add(&Unit{Label: fmt.Sprintf("%q", text), Render: "raw", Conn: conn, Tree: t, Neg: neg, NegOK: true, Members: mem,
				Unqualified: true, Args: static(text)})
		}
		// placeholders
		{
			text := "a = ? " + KW + " b = ?"
			t, neg, mem := bin(conn, P1.x.n, P1.y.n)
			u := add(&Unit{Label: fmt.Sprintf("%q,1,1", text), Render: "rawargs", Conn: conn, Tree: t, Neg: neg, NegOK: true, Members: mem,
				Unqualified: true, Args: static(text, 1, 1)})
			u.Rep = 2
		}
		// other operand pairs
		for _, p := range []pair{P2, P3} {
			text := p.x.raw + " " + KW + " " + p.y.raw
			t, neg, mem := bin(conn, p.x.n, p.y.n)
			add(&Unit{Label: fmt.Sprintf("%q", text), Render: "raw", Conn: conn, Tree: t, Neg: neg, NegOK: true, Members: mem,
				Unqualified: true, Args: static(text)})
		}
	}
	{
		t, neg, mem := bin("or", P2.x.n, P2.y.n)
		add(&Unit{Label: `"s = ? OR\nb = ?","x",2`, Render: "rawargs", Conn: "or", Tree: t, Neg: neg, NegOK: true, Members: mem, OddOr: true,
			Unqualified: true, Args: static("s = ? OR\nb = ?", "x", 2)})
	}

	// ------------------------------------------------ map / struct, AND-units
	add(&Unit{Label: `map{"a":1,"b":1}`, Render: "map", Conn: "and", Tree: And(A1.n, B1.n), Neg: AllFalse(A1.n, B1.n), NegOK: true,
		Members: []*Node{A1.n, B1.n}, Unqualified: true, Rep: 1, Args: static(map[string]interface{}{"a": 1, "b": 1})})
	add(&Unit{Label: `map{"b":2,"s":"x"}`, Render: "map", Conn: "and", Tree: And(B2.n, SX.n), Neg: AllFalse(B2.n, SX.n), NegOK: true,
		Members: []*Node{B2.n, SX.n}, Unqualified: true, Args: static(map[string]interface{}{"b": 2, "s": "x"})})
	add(&Unit{Label: `map{"a":nil,"s":"x"}`, Render: "map", Conn: "and", Tree: And(ANull.n, SX.n), Neg: AllFalse(ANull.n, SX.n), NegOK: true,
		Members: []*Node{ANull.n, SX.n}, Unqualified: true, Rep: 2, Args: static(map[string]interface{}{"a": nil, "s": "x"})})
	add(&Unit{Label: `map{"a":[]int{2,3},"s":[]string{"x","z"}}`, Render: "map", Conn: "and", Tree: And(AIn.n, SIn.n), Neg: AllFalse(AIn.n, SIn.n), NegOK: true,
		Members: []*Node{AIn.n, SIn.n}, Unqualified: true, Args: static(map[string]interface{}{"a": []int{2, 3}, "s": []string{"x", "z"}})})
	add(&Unit{Label: `Cols{A:1,B:1}`, Render: "struct", Conn: "and", Tree: And(A1.n, B1.n), Neg: AllFalse(A1.n, B1.n), NegOK: true,
		Members: []*Node{A1.n, B1.n}, Rep: 2, Args: static(Cols{A: 1, B: 1})})
	add(&Unit{Label: `&Cols{B:2,S:"x"}`, Render: "struct", Conn: "and", Tree: And(B2.n, SX.n), Neg: AllFalse(B2.n, SX.n), NegOK: true,
		Members: []*Node{B2.n, SX.n}, Args: static(&Cols{B: 2, S: "x"})})
	if opt.ModelStruct != nil {
		add(&Unit{Label: `&` + mname + `{A:&1,B:&1}`, Render: "struct", Conn: "and", Tree: And(A1.n, B1.n), Neg: AllFalse(A1.n, B1.n), NegOK: true,
			Members: []*Node{A1.n, B1.n},
			Args:    func(*gorm.DB) []interface{} { return []interface{}{opt.ModelStruct(ip(1), ip(1), nil)} }})
	}

	// ------------------------------------------------------ clause expressions
	add(&Unit{Label: `clause.And(Eq{a,1},Eq{b,1})`, Render: "clause", Conn: "and", Tree: And(A1.n, B1.n), Neg: AllFalse(A1.n, B1.n), NegOK: true,
		Members: []*Node{A1.n, B1.n}, Unqualified: true, Rep: 1, Args: static(clause.And(A1.expr, B1.expr))})
	add(&Unit{Label: `clause.And(Eq{s,"x"},Lt{b,2})`, Render: "clause", Conn: "and", Tree: And(SX.n, BLt.n), Neg: AllFalse(SX.n, BLt.n), NegOK: true,
		Members: []*Node{SX.n, BLt.n}, Unqualified: true, Args: static(clause.And(SX.expr, BLt.expr))})
	add(&Unit{Label: `clause.Or(Eq{a,1},Eq{b,1})`, Render: "clause", Conn: "or", Tree: Or(A1.n, B1.n), Neg: Not(Or(A1.n, B1.n)), NegOK: true,
		Members: []*Node{A1.n, B1.n}, Unqualified: true, Rep: 1, Args: static(clause.Or(A1.expr, B1.expr))})
	add(&Unit{Label: `clause.Or(Eq{s,"x"},Eq{b,2})`, Render: "clause", Conn: "or", Tree: Or(SX.n, B2.n), Neg: Not(Or(SX.n, B2.n)), NegOK: true,
		Members: []*Node{SX.n, B2.n}, Unqualified: true, Args: static(clause.Or(SX.expr, B2.expr))})
	add(&Unit{Label: `clause.Or(Eq{a,1},Expr{"b = 1"})`, Render: "clause", Conn: "or", Tree: Or(A1.n, B1.n), Neg: Not(Or(A1.n, B1.n)), NegOK: true,
		Members: []*Node{A1.n, B1.n}, Unqualified: true, Rep: 2, Args: static(clause.Or(A1.expr, clause.Expr{SQL: "b = 1"}))})
	add(&Unit{Label: `clause.Or(Expr{"a = 1"},Expr{"b = 1"})`, Render: "clause", Conn: "or", Tree: Or(A1.n, B1.n), Neg: Not(Or(A1.n, B1.n)), NegOK: true,
		Members: []*Node{A1.n, B1.n}, Unqualified: true, Args: static(clause.Or(clause.Expr{SQL: "a = 1"}, clause.Expr{SQL: "b = 1"}))})
	// all members raw: gorm negates the group as a whole (see AllRawAndGroup)
	add(&Unit{Label: `clause.And(Expr{"a = 1"},Expr{"b = 1"})`, Render: "clause", Conn: "and", Tree: And(A1.n, B1.n), Neg: Not(And(A1.n, B1.n)), NegOK: true,
		Members: []*Node{A1.n, B1.n}, Unqualified: true, AllRawAndGroup: true, Args: static(clause.And(clause.Expr{SQL: "a = 1"}, clause.Expr{SQL: "b = 1"}))})
	add(&Unit{Label: `clause.Expr{"a = ? OR b = ?",1,1}`, Render: "clause", Conn: "or", Tree: Or(A1.n, B1.n), Neg: Not(Or(A1.n, B1.n)), NegOK: true,
		Members: []*Node{A1.n, B1.n}, Unqualified: true, Args: static(clause.Expr{SQL: "a = ? OR b = ?", Vars: []interface{}{1, 1}})})
	add(&Unit{Label: `gorm.Expr("a = ? OR\nb = ?",1,1)`, Render: "clause", Conn: "or", Tree: Or(A1.n, B1.n), Neg: Not(Or(A1.n, B1.n)), NegOK: true,
		Members: []*Node{A1.n, B1.n}, Unqualified: true, OddOr: true, Args: static(gorm.Expr("a = ? OR\nb = ?", 1, 1))})
	add(&Unit{Label: `clause.Not(Eq{a,1})`, Render: "clause", Conn: "not", Tree: Not(A1.n), Neg: Not(Not(A1.n)), NegOK: true,
		Unqualified: true, Rep: 1, Args: static(clause.Not(A1.expr))})
	add(&Unit{Label: `clause.Not(Expr{"s = 'x'"})`, Render: "clause", Conn: "not", Tree: Not(SX.n), Neg: Not(Not(SX.n)), NegOK: true,
		Unqualified: true, Args: static(clause.Not(clause.Expr{SQL: "s = 'x'"}))})

	// ------------------------------------------------------- grouped builders
	type gm struct {
		lab  string
		args []interface{}
		n    *Node
		raw  bool
	}
	g := func(lab string, n *Node, raw bool, args ...interface{}) gm { return gm{lab, args, n, raw} }
	groupUnit := func(conn string, x, y gm, rep int) {
		var t, neg *Node
		if conn == "or" {
			t = Or(x.n, y.n)
			neg = Not(t)
		} else {
			t = And(x.n, y.n)
			neg = AllFalse(x.n, y.n)
			if x.raw && y.raw {
				neg = Not(t) // pinned by gorm's own TestNot: NOT (x AND y)
			}
		}
		call := "Where"
		if conn == "or" {
			call = "Or"
		}
		add(&Unit{Label: fmt.Sprintf("db.Where(%s).%s(%s)", x.lab, call, y.lab), Render: "group", Conn: conn, Tree: t, Neg: neg, NegOK: true,
			Members: []*Node{x.n, y.n}, Unqualified: true, Rep: rep, AllRawAndGroup: conn == "and" && x.raw && y.raw,
			Args: func(base *gorm.DB) []interface{} {
				in := base.Where(x.args[0], x.args[1:]...)
				if conn == "or" {
					in = in.Or(y.args[0], y.args[1:]...)
				} else {
					in = in.Where(y.args[0], y.args[1:]...)
				}
				return []interface{}{in}
			}})
	}
	rA1 := g(`"a = 1"`, A1.n, true, "a = 1")
	rB1 := g(`"b = 1"`, B1.n, true, "b = 1")
	qA1 := g(`"a = ?",1`, A1.n, true, "a = ?", 1)
	eA1 := g(`Eq{a,1}`, A1.n, false, A1.expr)
	eB1 := g(`Eq{b,1}`, B1.n, false, B1.expr)
	mSX := g(`map{"s":"x"}`, SX.n, false, map[string]interface{}{"s": "x"})
	rB2 := g(`"b = 2"`, B2.n, true, "b = 2")
	groupUnit("or", rA1, rB1, 1)
	groupUnit("or", eA1, eB1, 2)
	groupUnit("or", mSX, rB2, 0)
	groupUnit("or", qA1, eB1, 0)
	groupUnit("and", rA1, rB1, 0)
	groupUnit("and", eA1, eB1, 1)
	groupUnit("and", mSX, rB2, 2)
	groupUnit("and", eA1, rB1, 0)
	// a group holding a single raw OR string, a single map, a Not
	add(&Unit{Label: `db.Where("a = 1 OR b = 1")`, Render: "group", Conn: "or", Tree: Or(A1.n, B1.n), Neg: Not(Or(A1.n, B1.n)), NegOK: true,
		Members: []*Node{A1.n, B1.n}, Unqualified: true,
		Args: func(base *gorm.DB) []interface{} { return []interface{}{base.Where("a = 1 OR b = 1")} }})
	add(&Unit{Label: `db.Where(map{"a":1,"b":1})`, Render: "group", Conn: "and", Tree: And(A1.n, B1.n), Neg: AllFalse(A1.n, B1.n), NegOK: true,
		Members: []*Node{A1.n, B1.n}, Unqualified: true,
		Args: func(base *gorm.DB) []interface{} {
			return []interface{}{base.Where(map[string]interface{}{"a": 1, "b": 1})}
		}})
	add(&Unit{Label: `db.Not(Eq{a,1})`, Render: "group", Conn: "not", Tree: Not(A1.n), Neg: Not(Not(A1.n)), NegOK: true,
		Unqualified: true, Rep: 2,
		Args: func(base *gorm.DB) []interface{} { return []interface{}{base.Not(A1.expr)} }})
	add(&Unit{Label: `db.Not("s = 'x'")`, Render: "group", Conn: "not", Tree: Not(SX.n), Neg: Not(Not(SX.n)), NegOK: true,
		Unqualified: true,
		Args:        func(base *gorm.DB) []interface{} { return []interface{}{base.Not("s = 'x'")} }})

	// --------------------------------------------------------- named arguments
	add(&Unit{Label: `"a = @a OR b = @b",sql.Named("a",1),sql.Named("b",1)`, Render: "named", Conn: "or", Tree: Or(A1.n, B1.n), Neg: Not(Or(A1.n, B1.n)), NegOK: true,
		Members: []*Node{A1.n, B1.n}, Unqualified: true, Rep: 1, Args: static("a = @a OR b = @b", sql.Named("a", 1), sql.Named("b", 1))})
	add(&Unit{Label: `"s = @s OR b = @b",map{"s":"x","b":2}`, Render: "named", Conn: "or", Tree: Or(SX.n, B2.n), Neg: Not(Or(SX.n, B2.n)), NegOK: true,
		Members: []*Node{SX.n, B2.n}, Unqualified: true, Args: static("s = @s OR b = @b", map[string]interface{}{"s": "x", "b": 2})})
	add(&Unit{Label: `"a = @a AND b = @b",sql.Named("a",1),sql.Named("b",1)`, Render: "named", Conn: "and", Tree: And(A1.n, B1.n), Neg: Not(And(A1.n, B1.n)), NegOK: true,
		Members: []*Node{A1.n, B1.n}, Unqualified: true, Rep: 2, Args: static("a = @a AND b = @b", sql.Named("a", 1), sql.Named("b", 1))})
	add(&Unit{Label: `"a = @a OR\nb = @b",sql.Named("a",1),sql.Named("b",1)`, Render: "named", Conn: "or", Tree: Or(A1.n, B1.n), Neg: Not(Or(A1.n, B1.n)), NegOK: true,
		Members: []*Node{A1.n, B1.n}, Unqualified: true, OddOr: true, Args: static("a = @a OR\nb = @b", sql.Named("a", 1), sql.Named("b", 1))})
	add(&Unit{Label: `"a = @v OR b = @v",sql.Named("v",1)`, Render: "named", Conn: "or", Tree: Or(A1.n, B1.n), Neg: Not(Or(A1.n, B1.n)), NegOK: true,
		Members: []*Node{A1.n, B1.n}, Unqualified: true, Args: static("a = @v OR b = @v", sql.Named("v", 1))})

	// ------------------------------------------------------------- NOT atom, raw
	for i, text := range []string{"NOT a = 1", "NOT (a = 1)", "not(a = 1)"} {
		u := add(&Unit{Label: fmt.Sprintf("%q", text), Render: "raw", Conn: "not", Tree: Not(A1.n), Neg: Not(Not(A1.n)), NegOK: true,
			Unqualified: true, Args: static(text)})
		if i == 1 {
			u.Rep = 2
		}
	}

	// ------------------------------------------------------------------ depth 3
	orAB := Or(A1.n, B1.n)
	andAB := And(A1.n, B1.n)
	d3 := func(label, render string, t, neg *Node, negOK bool, rep int, oddOr bool, args func(*gorm.DB) []interface{}) {
		add(&Unit{Label: label, Render: render, Conn: "mixed", Tree: t, Neg: neg, NegOK: negOK, Unqualified: true, Rep: rep, OddOr: oddOr, Args: args})
	}
	d3(`clause.And(clause.Or(Eq{a,1},Eq{b,1}),Eq{s,"x"})`, "clause", And(orAB, SX.n), AllFalse(orAB, SX.n), true, 2, false,
		static(clause.And(clause.Or(A1.expr, B1.expr), SX.expr)))
	d3(`clause.And(Eq{s,"x"},clause.Or(Eq{a,1},Eq{b,1}))`, "clause", And(SX.n, orAB), AllFalse(SX.n, orAB), true, 0, false,
		static(clause.And(SX.expr, clause.Or(A1.expr, B1.expr))))
	d3(`clause.Or(clause.And(Eq{a,1},Eq{b,1}),Eq{s,"x"})`, "clause", Or(andAB, SX.n), Not(Or(andAB, SX.n)), true, 2, false,
		static(clause.Or(clause.And(A1.expr, B1.expr), SX.expr)))
	d3(`clause.Not(clause.Or(Eq{a,1},Eq{b,1}))`, "clause", Not(orAB), Not(Not(orAB)), true, 0, false,
		static(clause.Not(clause.Or(A1.expr, B1.expr))))
	d3(`clause.And(Expr{"a = 1 OR\nb = 1"},Eq{s,"x"})`, "clause", And(orAB, SX.n), AllFalse(orAB, SX.n), true, 0, true,
		static(clause.And(clause.Expr{SQL: "a = 1 OR\nb = 1"}, SX.expr)))
	d3(`"a = 1 AND (b = 1 OR s = 'x')"`, "raw", And(A1.n, Or(B1.n, SX.n)), Not(And(A1.n, Or(B1.n, SX.n))), true, 2, false,
		static("a = 1 AND (b = 1 OR s = 'x')"))
	d3(`"(a = 1 OR b = 1) AND s = 'x'"`, "raw", And(orAB, SX.n), Not(And(orAB, SX.n)), true, 0, false,
		static("(a = 1 OR b = 1) AND s = 'x'"))
	d3(`"a = 1 OR b = 1 AND s = 'x'"`, "raw", Or(A1.n, And(B1.n, SX.n)), Not(Or(A1.n, And(B1.n, SX.n))), true, 2, false,
		static("a = 1 OR b = 1 AND s = 'x'"))
	d3(`"NOT (a = 1 OR b = 1)"`, "raw", Not(orAB), Not(Not(orAB)), true, 0, false,
		static("NOT (a = 1 OR b = 1)"))
	d3(`db.Where(db.Where("a = 1").Or("b = 1")).Where(Eq{s,"x"})`, "group", And(orAB, SX.n), AllFalse(orAB, SX.n), true, 2, false,
		func(base *gorm.DB) []interface{} {
			return []interface{}{base.Where(base.Where("a = 1").Or("b = 1")).Where(SX.expr)}
		})
	// a group that mixes AND and OR at its top level: Not(...) is not defined by
	// the property statement (X), the positive reading is.
	d3(`db.Where(Eq{a,1}).Or(Eq{b,1}).Where(Eq{s,"x"})`, "group", Or(A1.n, And(B1.n, SX.n)), nil, false, 0, false,
		func(base *gorm.DB) []interface{} {
			return []interface{}{base.Where(A1.expr).Or(B1.expr).Where(SX.expr)}
		})

	// ------------------------------------------------- primary-key value forms
	pk14 := Atom("id", "in", []int{14})
	add(&Unit{Label: `14`, Render: "pkval", Conn: "atom", Tree: pk14, Neg: Not(pk14), NegOK: true, Rep: 1, Args: static(14)})
	add(&Unit{Label: `"14"`, Render: "pkval", Conn: "atom", Tree: pk14, Neg: Not(pk14), NegOK: true, Args: static("14")})
	pkS := Atom("id", "in", []int{1, 14, 27})
	add(&Unit{Label: `[]int{1,14,27}`, Render: "pkval", Conn: "atom", Tree: pkS, Neg: Not(pkS), NegOK: true, Rep: 2, Args: static([]int{1, 14, 27})})

	// ------------------------------------------------- units adding no condition
	add(&Unit{Label: `map[string]interface{}{}`, Render: "empty", Conn: "empty", NegOK: true, Unqualified: true, Rep: 2, Args: static(map[string]interface{}{})})
	add(&Unit{Label: `Cols{}`, Render: "empty", Conn: "empty", NegOK: true, Args: static(Cols{})})
	if opt.ModelStruct != nil {
		add(&Unit{Label: `&` + mname + `{}`, Render: "empty", Conn: "empty", NegOK: true,
			Args: func(*gorm.DB) []interface{} { return []interface{}{opt.ModelStruct(nil, nil, nil)} }})
	}

	// ---------------------------------------------------------- nested negation
	// (appended at the end so that the indices of the units above stay stable)
	// The outer negation negates the inner unit as a whole, whatever the inner
	// unit means under the property's reading (every member false for a
	// multi-member Not, logical negation for a raw / OR / single one).
	afAB := AllFalse(A1.n, B1.n)
	nn := func(label, render string, t *Node, rep int, args func(*gorm.DB) []interface{}) {
		add(&Unit{Label: label, Render: render, Conn: "mixed", Tree: t, Neg: Not(t), NegOK: true, Unqualified: true, Rep: rep, Args: args})
	}
	nn(`clause.Not(Eq{a,1},Eq{b,1})`, "clause", afAB, 0, static(clause.Not(A1.expr, B1.expr)))
	nn(`clause.Not(clause.Not(Eq{a,1},Eq{b,1}))`, "clause", Not(afAB), 2, static(clause.Not(clause.Not(A1.expr, B1.expr))))
	nn(`clause.Not(clause.Not(Eq{a,1}))`, "clause", Not(Not(A1.n)), 0, static(clause.Not(clause.Not(A1.expr))))
	nn(`clause.Not(clause.Not(clause.And(Eq{s,"x"},Lt{b,2})))`, "clause", Not(AllFalse(SX.n, BLt.n)), 0,
		static(clause.Not(clause.Not(clause.And(SX.expr, BLt.expr)))))
	nn(`clause.Not(clause.Not(clause.Or(Eq{a,1},Eq{b,1})))`, "clause", Not(Not(orAB)), 0,
		static(clause.Not(clause.Not(clause.Or(A1.expr, B1.expr)))))
	nn(`clause.Not(clause.Not(Expr{"a = 1 OR b = 1"}))`, "clause", Not(Not(orAB)), 0,
		static(clause.Not(clause.Not(clause.Expr{SQL: "a = 1 OR b = 1"}))))
	nn(`db.Not(map{"a":1,"b":1})`, "group", afAB, 2,
		func(base *gorm.DB) []interface{} {
			return []interface{}{base.Not(map[string]interface{}{"a": 1, "b": 1})}
		})
	nn(`db.Not(Cols{A:1,B:1})`, "group", afAB, 0,
		func(base *gorm.DB) []interface{} { return []interface{}{base.Not(Cols{A: 1, B: 1})} })
	u := us[len(us)-1]
	u.Unqualified = false
	nn(`db.Not(db.Where(Eq{a,1}).Where(Eq{b,1}))`, "group", afAB, 0,
		func(base *gorm.DB) []interface{} { return []interface{}{base.Not(base.Where(A1.expr).Where(B1.expr))} })
	nn(`db.Not(db.Where(Eq{a,1}).Or(Eq{b,1}))`, "group", Not(orAB), 0,
		func(base *gorm.DB) []interface{} { return []interface{}{base.Not(base.Where(A1.expr).Or(B1.expr))} })
	nn(`db.Not("a = 1 AND b = 1")`, "group", Not(andAB), 0,
		func(base *gorm.DB) []interface{} { return []interface{}{base.Not("a = 1 AND b = 1")} })
	nn(`db.Not(db.Not(map{"a":1,"b":1}))`, "group", Not(afAB), 0,
		func(base *gorm.DB) []interface{} {
			return []interface{}{base.Not(base.Not(map[string]interface{}{"a": 1, "b": 1}))}
		})
	nn(`db.Not(db.Not(Cols{B:2,S:"x"}))`, "group", Not(AllFalse(B2.n, SX.n)), 0,
		func(base *gorm.DB) []interface{} { return []interface{}{base.Not(base.Not(Cols{B: 2, S: "x"}))} })
	us[len(us)-1].Unqualified = false
	// Where + Not inside one group: an AND-group with the members x and NOT(..)
	gt := And(SX.n, afAB)
	add(&Unit{Label: `db.Where(Eq{s,"x"}).Not(map{"a":1,"b":1})`, Render: "group", Conn: "mixed", Tree: gt, Neg: AllFalse(SX.n, afAB), NegOK: true,
		Unqualified: true,
		Args: func(base *gorm.DB) []interface{} {
			return []interface{}{base.Where(SX.expr).Not(map[string]interface{}{"a": 1, "b": 1})}
		}})

	// ------------------------------------------- groups consisting of ONE call
	// db.Or(x) / db.Not(x) / db.Where(x) handed to Where/Or/Not: gorm wraps the
	// single condition in one-element And/Or/Not wrappers (appended at the end:
	// indices above stay stable).
	type one struct {
		lab      string
		args     []interface{}
		tree     *Node // meaning of x
		neg      *Node // meaning of Not(x)
		odd      bool  // raw fragment with an AND/OR keyword not delimited by plain spaces
		raw      bool
		unq      bool
		repOr    int
		negIsAll bool
	}
	var ones []one
	for si, sp := range seps {
		text := P1.x.raw + fmt.Sprintf(sp.fmt, sp.kw("or")) + P1.y.raw
		if sp.name == "paren" {
			text = "(" + P1.x.raw + fmt.Sprintf(sp.fmt, sp.kw("or")) + P1.y.raw + ")"
		}
		rep := 0
		if si == 0 {
			rep = 2
		}
		ones = append(ones, one{lab: fmt.Sprintf("%q", text), args: []interface{}{text}, tree: orAB, neg: Not(orAB), odd: sp.odd, raw: true, unq: true, repOr: rep})
	}
	ones = append(ones,
		one{lab: `"a = ? OR b = ?",1,1`, args: []interface{}{"a = ? OR b = ?", 1, 1}, tree: orAB, neg: Not(orAB), raw: true, unq: true},
		one{lab: `"a = @a OR b = @b",sql.Named("a",1),sql.Named("b",1)`, args: []interface{}{"a = @a OR b = @b", sql.Named("a", 1), sql.Named("b", 1)}, tree: orAB, neg: Not(orAB), raw: true, unq: true},
		one{lab: `"a = 1 AND b = 1"`, args: []interface{}{"a = 1 AND b = 1"}, tree: andAB, neg: Not(andAB), raw: true, unq: true},
		one{lab: `"a = 1\tAND\tb = 1"`, args: []interface{}{"a = 1\tAND\tb = 1"}, tree: andAB, neg: Not(andAB), raw: true, unq: true},
		one{lab: `"a = 1 OR b = 1 AND s = 'x'"`, args: []interface{}{"a = 1 OR b = 1 AND s = 'x'"}, tree: Or(A1.n, And(B1.n, SX.n)), neg: Not(Or(A1.n, And(B1.n, SX.n))), raw: true, unq: true},
		one{lab: `map{"a":1,"b":1}`, args: []interface{}{map[string]interface{}{"a": 1, "b": 1}}, tree: andAB, neg: afAB, unq: true, negIsAll: true},
		one{lab: `Cols{A:1,B:1}`, args: []interface{}{Cols{A: 1, B: 1}}, tree: andAB, neg: afAB, negIsAll: true},
		one{lab: `clause.Or(Eq{a,1},Eq{b,1})`, args: []interface{}{clause.Or(A1.expr, B1.expr)}, tree: orAB, neg: Not(orAB), unq: true},
		one{lab: `clause.And(Eq{a,1},Eq{b,1})`, args: []interface{}{clause.And(A1.expr, B1.expr)}, tree: andAB, neg: afAB, unq: true, negIsAll: true},
		one{lab: `clause.Expr{"a = ? OR b = ?",1,1}`, args: []interface{}{clause.Expr{SQL: "a = ? OR b = ?", Vars: []interface{}{1, 1}}}, tree: orAB, neg: Not(orAB), raw: true, unq: true},
	)
	for i := range ones {
		o := ones[i]
		isOddAnd := strings.Contains(o.lab, `\tAND\t`)
		spelling := i < len(seps)
		named := strings.HasPrefix(o.lab, `"a = @a`)
		hasOr := o.raw && strings.Contains(strings.ToUpper(o.lab), "OR")
		// leave out forms that duplicate units above or add nothing new
		wantNot := !(spelling && (i == 2 || i == 3 || i == 5 || i == 6)) && o.lab != `map{"a":1,"b":1}` && o.lab != `"a = 1 AND b = 1"`
		wantWhere := (spelling && i == 5) || isOddAnd || strings.HasPrefix(o.lab, `"a = ? OR`) || strings.HasPrefix(o.lab, `"a = @a`) || strings.HasPrefix(o.lab, "clause.Or(")
		// db.Or(x): one Or call - as a unit it means x; Not(unit) negates it as a whole
		add(&Unit{Label: "db.Or(" + o.lab + ")", Render: "group", Conn: "mixed", Tree: o.tree, Neg: Not(o.tree), NegOK: true,
			Unqualified: o.unq, Rep: o.repOr, OddOr: o.odd, OddAnd: isOddAnd, RawTop: o.raw, NamedWrapped: named, WrappedRawOr: hasOr,
			Ext:  o.repOr == 0,
			Args: func(base *gorm.DB) []interface{} { return []interface{}{base.Or(o.args[0], o.args[1:]...)} }})
		// db.Not(x): as a unit it means Not-of-x, Not(unit) negates that as a whole
		if wantNot {
			add(&Unit{Label: "db.Not(" + o.lab + ")", Render: "group", Conn: "mixed", Tree: o.neg, Neg: Not(o.neg), NegOK: true,
				Unqualified: o.unq, OddOr: o.odd || isOddAnd, NamedWrapped: named,
				Ext:  true,
				Args: func(base *gorm.DB) []interface{} { return []interface{}{base.Not(o.args[0], o.args[1:]...)} }})
		}
		// db.Where(x): transparent
		if wantWhere {
			add(&Unit{Label: "db.Where(" + o.lab + ")", Render: "group", Conn: "mixed", Tree: o.tree, Neg: o.neg, NegOK: true,
				Unqualified: o.unq, OddOr: o.odd, OddAnd: isOddAnd, RawTop: o.raw, NamedConn: map[bool]string{true: "or", false: ""}[named],
				Ext:  true,
				Args: func(base *gorm.DB) []interface{} { return []interface{}{base.Where(o.args[0], o.args[1:]...)} }})
		}
	}

	// ------------------------------- raw strings that steer gorm's classification
	// '@' inside a quoted literal together with positional ? arguments, and a '?'
	// inside a quoted literal together with named arguments (appended at the
	// end: indices above stay stable). The rows with s = 'y@v?w' really match.
	atY := Atom("s", "like", "%@v%")
	qY := Atom("s", "like", "%?w")
	eqY := Atom("s", "=", YVal)
	type steer struct {
		lab    string
		render string
		args   []interface{}
		tree   *Node
		conn   string
		mem    []*Node
		rep    int
	}
	steers := []steer{
		{`"s LIKE '%@v%' OR a = ?",1`, "rawargs", []interface{}{"s LIKE '%@v%' OR a = ?", 1}, Or(atY, A1.n), "or", []*Node{atY, A1.n}, 2},
		{`"a = ? OR s LIKE '%@v%'",1`, "rawargs", []interface{}{"a = ? OR s LIKE '%@v%'", 1}, Or(A1.n, atY), "or", []*Node{A1.n, atY}, 0},
		{`"s LIKE '%@v%' AND a = ?",2`, "rawargs", []interface{}{"s LIKE '%@v%' AND a = ?", 2}, And(atY, Atom("a", "=", 2)), "and", []*Node{atY, Atom("a", "=", 2)}, 0},
		{`"s LIKE '%@v%' OR b IN ?",[]int{1}`, "rawargs", []interface{}{"s LIKE '%@v%' OR b IN ?", []int{1}}, Or(atY, Atom("b", "in", []int{1})), "or", []*Node{atY, Atom("b", "in", []int{1})}, 0},
		{`"s LIKE '%@v%' OR a = 1"`, "raw", []interface{}{"s LIKE '%@v%' OR a = 1"}, Or(atY, A1.n), "or", []*Node{atY, A1.n}, 0},
		{`"s LIKE '%@v%'"`, "raw", []interface{}{"s LIKE '%@v%'"}, atY, "atom", nil, 0},
		{`"s LIKE ?","%@v%"`, "rawargs", []interface{}{"s LIKE ?", "%@v%"}, atY, "atom", nil, 0},
		// named arguments, a '?' inside the quoted literal
		{`"s LIKE '%?w' OR a = @a",sql.Named("a",1)`, "named-q", []interface{}{"s LIKE '%?w' OR a = @a", sql.Named("a", 1)}, Or(qY, A1.n), "or", []*Node{qY, A1.n}, 0},
		// (X) the same with the arguments given as a map is outside the alphabet:
		// gorm takes any '?' of the text for a placeholder (the template rule noted
		// under C01 X) and fails with "unsupported type map" - an error, no wrong rows
		{`"a = @a OR s = 'y@v?w'",sql.Named("a",1)`, "named-q", []interface{}{"a = @a OR s = 'y@v?w'", sql.Named("a", 1)}, Or(A1.n, eqY), "or", []*Node{A1.n, eqY}, 0},
		{`"s LIKE '%?w' AND a = @a",sql.Named("a",2)`, "named-q", []interface{}{"s LIKE '%?w' AND a = @a", sql.Named("a", 2)}, And(qY, Atom("a", "=", 2)), "and", []*Node{qY, Atom("a", "=", 2)}, 0},
	}
	for _, st := range steers {
		st := st
		add(&Unit{Label: st.lab, Render: st.render, Conn: st.conn, Tree: st.tree, Neg: Not(st.tree), NegOK: true, Members: st.mem,
			Unqualified: true, Rep: st.rep, Ext: st.rep == 0, Pending: map[bool]string{true: "named-args-question-mark-in-literal"}[st.render == "named-q"],
			Args: func(*gorm.DB) []interface{} { return st.args }})
	}
	// the first two also inside groups
	for _, st := range steers[:2] {
		st := st
		add(&Unit{Label: "db.Or(" + st.lab + ")", Render: "group", Conn: "mixed", Tree: st.tree, Neg: Not(st.tree), NegOK: true, Unqualified: true, Ext: true,
			RawTop: true, WrappedRawOr: true,
			Args: func(base *gorm.DB) []interface{} { return []interface{}{base.Or(st.args[0], st.args[1:]...)} }})
		add(&Unit{Label: "db.Not(" + st.lab + ")", Render: "group", Conn: "mixed", Tree: Not(st.tree), Neg: Not(Not(st.tree)), NegOK: true, Unqualified: true, Ext: true,
			Args: func(base *gorm.DB) []interface{} { return []interface{}{base.Not(st.args[0], st.args[1:]...)} }})
		add(&Unit{Label: "db.Where(" + st.lab + ").Or(Eq{b,2})", Render: "group", Conn: "or", Tree: Or(st.tree, B2.n), Neg: Not(Or(st.tree, B2.n)), NegOK: true,
			Members: []*Node{st.tree, B2.n}, Unqualified: true, Ext: true,
			Args: func(base *gorm.DB) []interface{} {
				return []interface{}{base.Where(st.args[0], st.args[1:]...).Or(B2.expr)}
			}})
	}

	// ---------------------- named-argument strings x the keyword-spelling set
	// (appended at the end: indices above stay stable)
	for si, sp := range seps {
		for _, conn := range []string{"or", "and"} {
			if conn == "and" && !(sp.name == "space-lower" || sp.name == "space-newline") {
				continue
			}
			if si == 0 {
				continue // " OR " / " AND " upper case exist above
			}
			if sp.name == "tab" {
				// (X) a TAB does not end a @name in gorm's named-argument syntax (only
				// space , ) quotes CR LF ; do): "a = @a<TAB>OR ..." fails with "not
				// enough args" - an error of that syntax, outside this alphabet
				continue
			}
			text := "a = @a" + fmt.Sprintf(sp.fmt, sp.kw(conn)) + "b = @b"
			if sp.name == "paren" {
				text = "(a = @a" + fmt.Sprintf(sp.fmt, sp.kw(conn)) + "b = @b)"
			}
			t, neg, mem := bin(conn, A1.n, B1.n)
			rep := 0
			if sp.name == "space-lower" && conn == "or" {
				rep = 2
			}
			add(&Unit{Label: fmt.Sprintf(`%q,sql.Named("a",1),sql.Named("b",1)`, text), Render: "named", Conn: conn, Tree: t, Neg: neg, NegOK: true, Members: mem,
				Unqualified: true, Rep: rep, Ext: rep == 0, OddOr: sp.odd && conn == "or", OddAnd: sp.odd && conn == "and",
				Args: static(text, sql.Named("a", 1), sql.Named("b", 1))})
		}
	}
	{
		t, neg, mem := bin("or", A1.n, B1.n)
		add(&Unit{Label: `"a = @a or b = @b",map{"a":1,"b":1}`, Render: "named", Conn: "or", Tree: t, Neg: neg, NegOK: true, Members: mem, Unqualified: true, Ext: true,
			Args: static("a = @a or b = @b", map[string]interface{}{"a": 1, "b": 1})})
		add(&Unit{Label: `"a = @a Or b = @b",map{"a":1,"b":1}`, Render: "named", Conn: "or", Tree: t, Neg: neg, NegOK: true, Members: mem, Unqualified: true, Ext: true,
			Args: static("a = @a Or b = @b", map[string]interface{}{"a": 1, "b": 1})})
		add(&Unit{Label: `"a = @A or b = @B",Cols{A:1,B:1}`, Render: "named", Conn: "or", Tree: t, Neg: neg, NegOK: true, Members: mem, Unqualified: true, Ext: true,
			Args: static("a = @A or b = @B", Cols{A: 1, B: 1})})
		add(&Unit{Label: `"a = @A OR b = @B",&Cols{A:1,B:1}`, Render: "named", Conn: "or", Tree: t, Neg: neg, NegOK: true, Members: mem, Unqualified: true, Ext: true,
			Args: static("a = @A OR b = @B", &Cols{A: 1, B: 1})})
	}
	return us
}
