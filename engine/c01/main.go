// C01 — argument values reach the database only as bound parameters, one per
// placeholder.
//
// Bounded-exhaustive enumeration (E3) of programs = <=2 (thorough <=3) clause
// calls x every finisher x both placeholder dialects x two models, with every
// value class at every argument position (<=1 deviating position; thorough
// also 2), built in DryRun mode on the real gorm code; the oracle reads
// Statement.SQL / Statement.Vars through a small SQL lexer. A slice of the
// programs is additionally executed on SQLite behind the recording driver and
// the same oracle is applied to the text / arguments the driver received.
package main

import (
	"database/sql/driver"
	"encoding/binary"
	"fmt"
	"hash/fnv"
	"os"
	"reflect"
	"runtime/pprof"
	"strings"
	"sync"
	"sync/atomic"
	"time"

	"gorm.io/gorm"

	"verif/h"
	"verif/mc"
	pg "verif/proggram"
)

// Case is the replay format.
type Case struct {
	pg.Case
	Numbered bool `json:"numbered"` // $n placeholders instead of ?
	Exec     bool `json:"exec"`     // executed on SQLite behind the recording driver
}

type evalInfo struct {
	vars        int
	slotVars    int
	clauses     int // distinct calls (incl. finisher) whose values were bound
	skeletonKey uint64
}

func derefString(v interface{}) string {
	rv := reflect.ValueOf(v)
	for rv.IsValid() && rv.Kind() == reflect.Ptr {
		if rv.IsNil() {
			return "<nil>"
		}
		rv = rv.Elem()
	}
	if !rv.IsValid() {
		return "<nil>"
	}
	if b, ok := rv.Interface().([]byte); ok {
		return string(b)
	}
	return fmt.Sprintf("%v", rv.Interface())
}

func markerFree(v interface{}) bool { return !pg.MarkerRe.MatchString(derefString(v)) }

func show(v interface{}) string {
	s := derefString(v)
	if len(s) > 60 {
		s = s[:60] + "…"
	}
	return fmt.Sprintf("%T(%s)", v, s)
}

func showList(vs []interface{}) string {
	var out []string
	for _, v := range vs {
		out = append(out, show(v))
	}
	return "[" + strings.Join(out, ", ") + "]"
}

// convert applies database/sql's default parameter conversion to an expected
// sequence (what the driver must receive for these bound values).
func convert(alt []interface{}) ([]interface{}, bool) {
	out := make([]interface{}, len(alt))
	for i, v := range alt {
		cv, err := driver.DefaultParameterConverter.ConvertValue(v)
		if err != nil {
			return nil, false
		}
		out[i] = cv
	}
	return out, true
}

func baseCol(key string) string {
	if i := strings.IndexByte(key, '#'); i >= 0 {
		return key[:i]
	}
	return key
}

// evaluate is the oracle. text/vars are Statement.SQL/Vars (dry) or the text
// and argument values the driver received (exec). presence=false skips the
// "every required argument is rendered" part (secondary statements).
func evaluate(p *pg.Prog, vals []pg.Val, text string, vars []interface{}, numbered, exec, presence bool) (problems []string, info evalInfo) {
	ts := lex(text)
	hsh := fnv.New64a()
	hsh.Write([]byte(skeleton(ts)))
	info.skeletonKey = hsh.Sum64()
	info.vars = len(vars)

	// (1) placeholders: count and sequence
	k := 0
	seqOK := true
	for _, t := range ts {
		if t.kind != tPH {
			continue
		}
		k++
		if numbered && t.n != k {
			seqOK = false
		}
		if !numbered && t.n != 0 {
			seqOK = false
		}
	}
	if k != len(vars) {
		problems = append(problems, fmt.Sprintf("placeholder-count: %d placeholders in the text, %d bound values", k, len(vars)))
	} else if !seqOK {
		problems = append(problems, "placeholder-sequence: placeholders are not the dialect's sequence 1..n read left to right")
	}

	// (1b) no named argument left unexpanded: every @name of the alphabet's
	// templates has a value, so "@word" outside quoted literals means a name
	// was not replaced by a placeholder
	for i := 0; i+1 < len(ts); i++ {
		if ts[i].kind == tPunct && ts[i].text == "@" && ts[i+1].kind == tWord {
			problems = append(problems, fmt.Sprintf("name-left-in-text: the named argument @%s was not replaced by a placeholder", ts[i+1].text))
			break
		}
	}

	// (2) no marker of any argument in the text
	for i, v := range vals {
		for _, m := range v.Markers {
			if exec && (p.Slots[i].Spec.Key == "LIMIT" || p.Slots[i].Spec.Key == "OFFSET") {
				continue // LIMIT/OFFSET are never part of exec programs; defensive
			}
			if strings.Contains(text, m) {
				problems = append(problems, fmt.Sprintf("value-in-text: marker %s of argument #%d (%s) occurs in the SQL text", m, v.ID, pg.ClassName[v.Class]))
				break
			}
		}
	}
	if k != len(vars) {
		return
	}

	// (3) alignment by adjacent identifier
	expected := map[string]int{}
	for i, s := range p.Slots {
		if !p.MayAppear(i) {
			continue
		}
		key := s.Key
		if vals[i].InnerKey != "" {
			key = vals[i].InnerKey
		}
		expected[key] = i // a later call with the same key (LIMIT, OFFSET) overrides
	}
	satisfied := make([]bool, len(vals))
	occs, ungoverned := govern(ts)
	used := map[int]bool{}
	for _, oc := range occs {
		got := make([]interface{}, len(oc.phs))
		for i, ph := range oc.phs {
			got[i] = vars[ph]
		}
		si, ok := expected[oc.key]
		if !ok {
			for _, g := range got {
				if !markerFree(g) {
					problems = append(problems, fmt.Sprintf("misaligned: column %s is no argument's column but its placeholder binds %s", oc.key, show(g)))
					break
				}
			}
			continue
		}
		match := false
		for ai, alt := range vals[si].Alts {
			if ai == vals[si].PerByteAlt && !p.Slots[si].Spec.ListCtx {
				continue // per-byte binding is admissible only where gorm expands a list
			}
			want := alt
			if exec {
				cv, ok := convert(alt)
				if !ok {
					continue
				}
				want = cv
			}
			if len(want) == len(got) && (len(want) == 0 || reflect.DeepEqual(want, got)) {
				match = true
				break
			}
		}
		if !match {
			problems = append(problems, fmt.Sprintf("misaligned: placeholders governed by %s bind %s, argument #%d (%s) expects %s",
				oc.key, showList(got), vals[si].ID, pg.ClassName[vals[si].Class], showList(vals[si].Alts[0])))
			continue
		}
		satisfied[si] = true
		info.slotVars += len(got)
		used[p.Slots[si].OpIdx] = true
	}
	info.clauses = len(used)
	for _, ph := range ungoverned {
		if !markerFree(vars[ph]) {
			problems = append(problems, fmt.Sprintf("misaligned: placeholder %d has no governing column and binds %s", ph+1, show(vars[ph])))
		}
	}

	// presence: every argument that must be rendered is rendered with its values
	if presence {
		present := colsPresent(ts)
		for i, v := range vals {
			if !p.MustAppear(i, v) {
				continue
			}
			s := p.Slots[i]
			if s.Spec.Key != "" && expected[s.Key] != i {
				continue // overridden by a later Limit/Offset
			}
			if !present[baseCol(s.Key)] {
				problems = append(problems, fmt.Sprintf("dropped: column %s of argument #%d (%s) does not occur in the text", baseCol(s.Key), v.ID, pg.ClassName[v.Class]))
				continue
			}
			emptyOK := false
			for _, alt := range v.Alts {
				if len(alt) == 0 {
					emptyOK = true
				}
			}
			if !satisfied[i] && !emptyOK {
				problems = append(problems, fmt.Sprintf("dropped: argument #%d (%s) at %s is not bound", v.ID, pg.ClassName[v.Class], s.Key))
			}
		}
	}
	return
}

func kindOf(problem string) string {
	if i := strings.IndexByte(problem, ':'); i > 0 {
		return problem[:i]
	}
	return problem
}

func tags(p *pg.Prog, c Case) []string {
	var out []string
	dialect := "dialect:?"
	if c.Numbered {
		dialect = "dialect:$n"
	}
	if c.Exec {
		dialect = "dialect:sqlite-exec"
	}
	out = append(out, dialect)
	for _, o := range p.Ops {
		out = append(out, "op:"+o.Label)
	}
	out = append(out, "fin:"+p.Fin.Label)
	for _, s := range p.Slots {
		if s.Class != s.Spec.Classes[0] {
			owner := "fin:" + p.Fin.Label
			if s.OpIdx >= 0 {
				owner = "op:" + p.Ops[s.OpIdx].Label
			}
			out = append(out, "class:"+pg.ClassName[s.Class], owner+"|class:"+pg.ClassName[s.Class])
		}
	}
	return out
}

type worker struct {
	dry      [2]*gorm.DB
	env      *h.Env
	seen     map[uint64]struct{}
	n        int
	outcomes map[string]struct{}
}

func newWorker(exec bool) *worker {
	w := &worker{seen: map[uint64]struct{}{}}
	w.dry[0] = h.OpenDry(false, &gorm.Config{AllowGlobalUpdate: true})
	w.dry[1] = h.OpenDry(true, &gorm.Config{AllowGlobalUpdate: true})
	if exec {
		w.env = h.Open(&gorm.Config{AllowGlobalUpdate: true})
		for _, s := range pg.SchemaSQL() {
			w.env.MustExec(s)
		}
		w.seed()
	}
	return w
}

func (w *worker) seed() {
	for _, s := range pg.SeedSQL() {
		w.env.MustExec(s)
	}
}

type outcome struct {
	text     string
	vars     []interface{}
	err      error
	panicMsg string
	vals     []pg.Val
	events   []string
	extra    []struct {
		text string
		vars []interface{}
	}
}

func (w *worker) run(p *pg.Prog, c Case) (res outcome) {
	defer func() {
		if r := recover(); r != nil {
			res.panicMsg = fmt.Sprint(r)
		}
	}()
	if !c.Exec {
		db := w.dry[0]
		if c.Numbered {
			db = w.dry[1]
		}
		tx, vals := p.Run(db)
		res.vals = vals
		res.err = tx.Error
		res.text = tx.Statement.SQL.String()
		res.vars = append([]interface{}(nil), tx.Statement.Vars...)
		return
	}
	w.n++
	if w.n%500 == 0 {
		w.seed()
	}
	w.env.Rec.Reset()
	func() {
		defer func() {
			if r := recover(); r != nil {
				res.panicMsg = fmt.Sprint(r)
			}
		}()
		tx, vals := p.Run(w.env.DB)
		res.vals = vals
		res.err = tx.Error
	}()
	if res.panicMsg != "" {
		// a panic inside gorm leaves its transaction open: continue on a fresh database
		defer func() {
			w.env.Close()
			w.env = h.Open(&gorm.Config{AllowGlobalUpdate: true})
			for _, s := range pg.SchemaSQL() {
				w.env.MustExec(s)
			}
			w.seed()
		}()
		if res.vals == nil {
			// the values are deterministic: rebuild them for the oracle
			base := w.dry[0].Session(&gorm.Session{NewDB: true})
			for _, s := range p.Slots {
				res.vals = append(res.vals, pg.Make(s.Class, s.ID, base))
			}
		}
	}
	first := true
	for _, ev := range w.env.Rec.Events() {
		res.events = append(res.events, ev.String())
		if !ev.IsStatement() {
			continue
		}
		var args []interface{}
		for _, a := range ev.Args {
			args = append(args, a.Value)
		}
		if first {
			res.text, res.vars = ev.SQL, args
			first = false
		} else {
			res.extra = append(res.extra, struct {
				text string
				vars []interface{}
			}{ev.SQL, args})
		}
	}
	return
}

type stats struct {
	evals, withSQL, noSQL, ge2vars, ge2clauses, execEvals, execStmts, errs, sampled, classifiedPanics int64
}

func check(run *mc.Run, w *worker, p *pg.Prog, c Case, st *stats, samples *mc.Samples, outcomes *mc.Set, verbose bool) {
	p.SQLite = c.Exec
	res := w.run(p, c)
	atomic.AddInt64(&st.evals, 1)
	if c.Exec {
		atomic.AddInt64(&st.execEvals, 1)
	}
	if res.err != nil {
		atomic.AddInt64(&st.errs, 1)
	}
	fail := func(problems []string, text string, vars []interface{}) {
		c.Case = p.FullCase()
		msg := kindOf(problems[0]) + "\n" + p.String() + "\n" + strings.Join(problems, "\n") +
			"\nSQL:  " + text + "\nVars: " + showList(vars) + fmt.Sprintf("\nerr=%v", res.err)
		run.Violation(tags(p, c), msg, c)
	}
	if res.panicMsg != "" {
		if c.Exec && p.ReturningIntoNoScanDest() {
			// classified: gorm cannot scan RETURNING rows into this destination
			// (real run only); the statement the driver received is still checked
			atomic.AddInt64(&st.classifiedPanics, 1)
		} else {
			fail([]string{"panic: " + res.panicMsg}, res.text, res.vars)
			return
		}
	}
	if res.text == "" {
		atomic.AddInt64(&st.noSQL, 1)
		if c.Exec {
			// nothing reached the driver (e.g. database/sql refused to convert
			// an argument): nothing to check on this path
			outcomes.Add("exec-no-statement")
			return
		}
		fail([]string{"no-sql: the program built no SQL text"}, res.text, res.vars)
		return
	}
	atomic.AddInt64(&st.withSQL, 1)
	problems, info := evaluate(p, res.vals, res.text, res.vars, c.Numbered, c.Exec, true)
	if verbose {
		fmt.Printf("program: %s\nSQL:  %s\nVars: %s\nerr=%v\n", p.String(), res.text, showList(res.vars), res.err)
		for _, e := range res.events {
			fmt.Println("  event:", e)
		}
		for _, pr := range problems {
			fmt.Println("  PROBLEM:", pr)
		}
	}
	if c.Exec {
		atomic.AddInt64(&st.execStmts, 1)
	}
	w.seen[info.skeletonKey] = struct{}{}
	if info.vars >= 2 {
		atomic.AddInt64(&st.ge2vars, 1)
	}
	if info.clauses >= 2 {
		atomic.AddInt64(&st.ge2clauses, 1)
	}
	if len(problems) > 0 {
		fail(problems, res.text, res.vars)
		return
	}
	for _, ex := range res.extra {
		if pr, _ := evaluate(p, res.vals, ex.text, ex.vars, false, true, false); len(pr) > 0 {
			fail(pr, ex.text, ex.vars)
			return
		}
	}
	ok := "ok vars=" + itoa(info.vars) + " clauses=" + itoa(info.clauses)
	if res.err != nil {
		ok += " err"
	}
	if w.outcomes == nil {
		w.outcomes = map[string]struct{}{}
	}
	if _, dup := w.outcomes[ok]; !dup {
		w.outcomes[ok] = struct{}{}
		outcomes.Add(ok)
	}
	if info.clauses >= 2 && info.vars >= 3 && atomic.LoadInt64(&st.sampled) < 8 {
		atomic.AddInt64(&st.sampled, 1)
		samples.Add(map[string]string{"program": p.String(), "sql": res.text})
	}
}

func main() {
	args := mc.ParseArgs()
	run := mc.NewRun("C01", args.Tier, "exploration")
	if args.Replay != "" {
		var c Case
		if err := mc.LoadReplay(args.Replay, &c); err != nil {
			fmt.Fprintln(os.Stderr, err)
			os.Exit(3)
		}
		w := newWorker(true)
		p, err := pg.Resolve(c.Case)
		if err != nil {
			fmt.Fprintln(os.Stderr, err)
			os.Exit(3)
		}
		check(run, w, p, c, &stats{}, &mc.Samples{N: 1}, &mc.Set{}, true)
		if run.NumViolations() > 0 {
			os.Exit(1)
		}
		fmt.Println("no violation")
		return
	}

	if pf := os.Getenv("VERIF_C01_PROF"); pf != "" {
		f, _ := os.Create(pf)
		pprof.StartCPUProfile(f)
		defer pprof.StopCPUProfile()
	}
	thorough := args.Tier == "thorough"
	budget := 85 * time.Second
	if thorough {
		budget = 9 * time.Minute
	}
	if b := os.Getenv("VERIF_C01_BUDGET"); b != "" {
		budget, _ = time.ParseDuration(b)
	}
	deadline := time.Now().Add(budget)

	// work items: a shape + dialect; the class vectors are expanded inside the worker
	type item struct {
		shape    pg.Shape
		numbered bool
		exec     bool
		dev      int
		r1       []pg.Class
		pairwise bool
	}
	var items []item
	var groups [][]item
	addDry := func(shapes []pg.Shape, dev int, r1 []pg.Class) {
		// a fixed stride permutation: a run cut by the deadline still covers a spread of shapes
		n := len(shapes)
		stride := 7919
		for n > 0 && n%stride == 0 {
			stride++
		}
		var g []item
		for i := 0; i < n; i++ {
			s := shapes[(i*stride)%n]
			g = append(g, item{s, false, false, dev, r1, false}, item{s, true, false, dev, r1, false})
		}
		groups = append(groups, g)
	}
	addPairwise := func(shapes []pg.Shape) {
		var g []item
		for _, s := range shapes {
			g = append(g, item{s, false, false, 0, nil, true}, item{s, true, false, 0, nil, true})
		}
		groups = append(groups, g)
	}
	both := []int{pg.ModelT, pg.ModelS}
	all, core := pg.OpsFor(false, false), pg.OpsFor(true, false)
	// mergeGroups appends the pending groups to the work list round-robin: a run
	// cut by the deadline has covered a part of each
	mergeGroups := func() {
		for more := true; more; {
			more = false
			for gi := range groups {
				if len(groups[gi]) > 0 {
					items = append(items, groups[gi][0])
					groups[gi] = groups[gi][1:]
					more = true
				}
			}
		}
		groups = nil
	}
	var plan string
	onlyT, onlyS := []int{pg.ModelT}, []int{pg.ModelS}
	fins := pg.FinsFor(false, false)
	{
		// quick: a closed, load-independent slice (thorough runs it first).
		// executed slice: every program with <=1 call, every finisher
		for _, s := range pg.Shapes(onlyT, pg.Seqs(pg.OpsFor(false, true), 0, 1), fins) {
			items = append(items, item{s, false, true, 1, pg.PathClasses, false})
		}
		for _, s := range pg.Shapes(onlyS, pg.Seqs(pg.OpsFor(false, true), 0, 1), fins) {
			items = append(items, item{s, false, true, 0, nil, false})
		}
		addDry(pg.Shapes(onlyT, pg.Seqs(all, 0, 1), fins), 1, nil)
		addDry(pg.Shapes(onlyS, pg.Seqs(all, 0, 1), fins), 0, nil)
		// 2 calls: pairwise — every ordered pair of calls with 3 finishers and a
		// model chosen cyclically, default classes plus one deviating slot per call
		addPairwise(pg.CyclicShapes(both, pg.Seqs(all, 2, 2), fins, 3))
		plan = fmt.Sprintf("quick = <=1 call over %d calls x %d finishers x {model T with <=1 slot deviating from its default class over all classes, model S with default classes} x 2 dialects; every ordered pair of calls (2-call programs) x 3 finishers and a model chosen cyclically (pairwise cover of call x call, call x finisher) with the default classes and, per call, one deviating slot whose (slot, class) cycles over the partner calls (pairwise cover of slot x class x position) x 2 dialects; executed slice = every program with <=1 call on SQLite behind the recording driver (model T with <=1 slot deviating over %d path classes, model S default)", len(all), len(fins), len(pg.PathClasses))
	}
	if thorough {
		mergeGroups()
		for _, s := range pg.Shapes(both, pg.Seqs(pg.OpsFor(false, true), 0, 1), fins) {
			items = append(items, item{s, false, true, 1, nil, false})
		}
		addDry(pg.Shapes(both, pg.Seqs(all, 0, 1), pg.FinsFor(false, false)), 2, nil)
		addDry(pg.Shapes(both, pg.Seqs(all, 2, 2), pg.FinsFor(false, false)), 1, nil)
		addDry(pg.Shapes([]int{pg.ModelT}, pg.Seqs(core, 3, 3), pg.FinsFor(true, false)), 1, nil)
		plan = "thorough = the quick slice first [" + plan + "]; then (interleaved) " + fmt.Sprintf("<=1 call over %d calls x %d finishers x 2 models with <=2 deviating slots (second deviation over %d path classes); 2 calls x all finishers x 2 models with <=1 deviating slot; 3 calls over the reduced alphabet of %d calls x %d representative finishers x model T with <=1 deviating slot", len(all), len(pg.FinsFor(false, false)), len(pg.PathClasses), len(core), len(pg.FinsFor(true, false)))
	}

	mergeGroups()

	st := &stats{}
	samples := &mc.Samples{N: 8}
	outcomes := &mc.Set{}
	var next int64 = -1
	var timedOut, tooMany int32
	var wg sync.WaitGroup
	var mu sync.Mutex
	skeletons := &mc.Set{}
	var shapesDone int64
	nw := 16
	for i := 0; i < nw; i++ {
		wg.Add(1)
		go func() {
			defer wg.Done()
			w := newWorker(true)
			for {
				n := atomic.AddInt64(&next, 1)
				if int(n) >= len(items) {
					break
				}
				if time.Now().After(deadline) {
					atomic.StoreInt32(&timedOut, 1)
					break
				}
				if run.NumViolations() > 3000 {
					atomic.StoreInt32(&tooMany, 1)
					break
				}
				it := items[n]
				visit := func(classes []int) {
					c := Case{Numbered: it.numbered, Exec: it.exec}
					check(run, w, it.shape.Prog(classes), c, st, samples, outcomes, false)
				}
				if it.pairwise {
					it.shape.PairwiseVectors(0, nil, visit)
				} else {
					it.shape.ClassVectors(it.dev, it.r1, pg.PathClasses, visit)
				}
				atomic.AddInt64(&shapesDone, 1)
			}
			mu.Lock()
			var b [8]byte
			for k := range w.seen {
				binary.LittleEndian.PutUint64(b[:], k)
				skeletons.Add(string(b[:]))
			}
			mu.Unlock()
		}()
	}
	wg.Wait()
	pprof.StopCPUProfile()

	exhaustive := timedOut == 0 && tooMany == 0
	// non-vacuity floors judge a COMPLETE enumeration; a run cut by its deadline
	// reports exhaustive:false instead
	if run.NumViolations() == 0 && exhaustive {
		if skeletons.Len() < 1000 {
			run.HarnessError("vacuous: only %d distinct SQL skeletons", skeletons.Len())
		}
		if st.ge2vars < 1000 || st.ge2clauses < 1000 {
			run.HarnessError("vacuous: programs with >=2 vars: %d, with vars from >=2 calls: %d", st.ge2vars, st.ge2clauses)
		}
		if st.execStmts < 1000 {
			run.HarnessError("vacuous: only %d executed statements checked at the driver", st.execStmts)
		}
	}
	run.Assume("templates are well-formed: as many '?' as positional arguments, no '?', '@' or '$n' inside quoted literals of the template; a template mixing '?' with sql.NamedArg (native named parameters passed through to the driver) is outside the alphabet")
	run.Assume("identifiers given as map keys / clause.Column / column names in templates are quoted into the text by design and are not argument values")
	run.Assume("Limit/Offset binding is checked under the two DryRun dialectors only (the SQLite dialector's own LIMIT builder inlines integers)")
	run.Assume("the executed slice checks the text and converted arguments received by the recording driver; whether the rows selected are the intended ones is C02's oracle")
	run.Assume("executed slice: an explicit RETURNING call in front of a finisher whose destination cannot receive rows ([]map, map update without model) makes gorm's Scan panic in the real run on the unchanged tree; classified by that input-side predicate (the statement the driver received is still checked), not a C01 matter")
	run.Assume("a byte-kind argument ([]byte, json.RawMessage, net.IP, named byte slice, byte array) must be ONE bound value; one value per byte is accepted only at positions where gorm expands slices into a list (\"(?)\" after a parenthesis, WithoutParentheses, map conditions)")
	run.Finish(map[string]interface{}{
		"evaluations":                       st.evals,
		"distinct_nontrivial":               skeletons.Len(),
		"rule":                              "programs = clause-call sequences x finishers x models x {?, $n} placeholder dialects, every argument slot ranging over its admissible value classes: " + plan + fmt.Sprintf("; thorough additionally executes every program with <=1 call on SQLite (<=1 deviating slot, all classes); %d value classes; non-trivial = distinct SQL skeletons (text with literals removed, placeholders kept) on which the three oracle parts were evaluated", int(pg.NumClasses)),
		"samples":                           samples.List(),
		"exhaustive":                        exhaustive,
		"shapes_total":                      len(items),
		"shapes_done":                       shapesDone,
		"programs_with_sql":                 st.withSQL,
		"programs_without_sql":              st.noSQL,
		"programs_with_ge2_vars":            st.ge2vars,
		"programs_with_vars_from_ge2_calls": st.ge2clauses,
		"executed_on_sqlite":                st.execEvals,
		"executed_statements_checked":       st.execStmts,
		"exec_panics_classified_returning_into_unscannable_destination": st.classifiedPanics,
		"programs_returning_error":                                      st.errs,
		"distinct_outcomes":                                             outcomes.Len(),
		"clause_calls":                                                  len(pg.Ops),
		"finishers":                                                     len(pg.FinsFor(false, false)),
		"value_classes":                                                 int(pg.NumClasses),
		"stopped_by_deadline":                                           timedOut != 0,
		"stopped_after_too_many_violations":                             tooMany != 0,
	})
}
