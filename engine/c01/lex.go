package main

import (
	"strings"
)

// A small SQL lexer: it only has to separate quoted literals / identifiers
// from the rest, recognise placeholders and identify column names.

type tkind int

const (
	tWord tkind = iota
	tQIdent
	tStr
	tPH
	tPunct
	tNum
)

type token struct {
	kind tkind
	text string // identifier text without quotes; punctuation char; literal body
	n    int    // placeholder number ($n), 0 for '?'
}

func isWordStart(c byte) bool {
	return c == '_' || (c >= 'a' && c <= 'z') || (c >= 'A' && c <= 'Z') || c >= 0x80
}
func isDigit(c byte) bool { return c >= '0' && c <= '9' }

func lex(s string) []token {
	var out []token
	i := 0
	for i < len(s) {
		c := s[i]
		switch {
		case c == ' ' || c == '\t' || c == '\n' || c == '\r':
			i++
		case c == '\'' || c == '`' || c == '"':
			// quoted literal / identifier; the quote character doubled is an escape
			j := i + 1
			var sb strings.Builder
			for j < len(s) {
				if s[j] == c {
					if j+1 < len(s) && s[j+1] == c {
						sb.WriteByte(c)
						j += 2
						continue
					}
					break
				}
				sb.WriteByte(s[j])
				j++
			}
			k := tQIdent
			if c == '\'' {
				k = tStr
			}
			out = append(out, token{kind: k, text: sb.String()})
			i = j + 1
		case c == '?':
			out = append(out, token{kind: tPH})
			i++
		case c == '$' && i+1 < len(s) && isDigit(s[i+1]):
			j := i + 1
			n := 0
			for j < len(s) && isDigit(s[j]) {
				n = n*10 + int(s[j]-'0')
				j++
			}
			out = append(out, token{kind: tPH, n: n})
			i = j
		case isWordStart(c):
			j := i + 1
			for j < len(s) && (isWordStart(s[j]) || isDigit(s[j])) {
				j++
			}
			out = append(out, token{kind: tWord, text: s[i:j]})
			i = j
		case isDigit(c):
			j := i + 1
			for j < len(s) && (isDigit(s[j]) || s[j] == '.') {
				j++
			}
			out = append(out, token{kind: tNum, text: s[i:j]})
			i = j
		default:
			out = append(out, token{kind: tPunct, text: string(c)})
			i++
		}
	}
	return out
}

func isCQ(s string) bool {
	if len(s) < 2 || (s[0] != 'c' && s[0] != 'q' && s[0] != 'u') {
		return false
	}
	for i := 1; i < len(s); i++ {
		if !isDigit(s[i]) {
			return false
		}
	}
	return true
}

var otherCols = map[string]bool{"id": true, "created_at": true, "updated_at": true, "deleted_at": true, "other_id": true, "name": true, "k1": true}

// isCol: the token names a column (not a table qualifier).
func isCol(ts []token, i int) bool {
	t := ts[i]
	if t.kind != tWord && t.kind != tQIdent {
		return false
	}
	if !(isCQ(t.text) || otherCols[t.text]) {
		return false
	}
	if i+1 < len(ts) && ts[i+1].kind == tPunct && ts[i+1].text == "." {
		return false
	}
	return true
}

func isP(t token, s string) bool { return t.kind == tPunct && t.text == s }
func isW(t token, s string) bool { return t.kind == tWord && strings.EqualFold(t.text, s) }

// skeleton returns the text with literals removed (placeholders kept) — used
// for the distinct-skeleton counter.
func skeleton(ts []token) string {
	var sb strings.Builder
	for _, t := range ts {
		switch t.kind {
		case tPH:
			sb.WriteByte('?')
		case tStr:
			sb.WriteString("''")
		case tNum:
			sb.WriteByte('0')
		default:
			sb.WriteString(t.text)
		}
		sb.WriteByte(' ')
	}
	return sb.String()
}

// occurrence: a governing column occurrence with the indexes (into the
// placeholder sequence) of the placeholders it governs.
type occurrence struct {
	key string
	phs []int
}

// govern assigns every placeholder to a governing key occurrence.
//   - inside "(cols) VALUES (..),(..)": by position in the column list, key
//     "col" for the first row and "col#r" for row r;
//   - inside "(cols) IN ((..),(..))": by position in the column list;
//   - otherwise: the nearest preceding column name, or LIMIT / OFFSET.
func govern(ts []token) (occs []occurrence, ungoverned []int) {
	phIndex := map[int]int{} // token index -> placeholder ordinal
	n := 0
	for i, t := range ts {
		if t.kind == tPH {
			phIndex[i] = n
			n++
		}
	}
	assigned := map[int]bool{}
	occOf := map[string]int{}
	add := func(id string, key string, tokIdx int) {
		oi, ok := occOf[id]
		if !ok {
			oi = len(occs)
			occOf[id] = oi
			occs = append(occs, occurrence{key: key})
		}
		occs[oi].phs = append(occs[oi].phs, phIndex[tokIdx])
		assigned[tokIdx] = true
	}

	// column list ending at token index end (a ')'): returns names or nil
	colList := func(end int) []string {
		if end < 0 || !isP(ts[end], ")") {
			return nil
		}
		var cols []string
		j := end - 1
		expectCol := true
		for j >= 0 {
			if isP(ts[j], "(") {
				if expectCol {
					return nil
				}
				// reverse
				for a, b := 0, len(cols)-1; a < b; a, b = a+1, b-1 {
					cols[a], cols[b] = cols[b], cols[a]
				}
				return cols
			}
			if expectCol {
				if !isCol(ts, j) {
					return nil
				}
				cols = append(cols, ts[j].text)
				expectCol = false
				// skip a table qualifier  `t`.`c`
				if j-2 >= 0 && isP(ts[j-1], ".") {
					j -= 2
				}
			} else {
				if !isP(ts[j], ",") {
					return nil
				}
				expectCol = true
			}
			j--
		}
		return nil
	}

	// groups parses "( … ) , ( … ) …" starting at token index i (which must
	// be '('); calls f(row, pos, tokenIndexOfPlaceholder); returns the index
	// after the last group.
	groups := func(i int, f func(row, pos, tok int)) int {
		row := 0
		for i < len(ts) && isP(ts[i], "(") {
			depth, pos := 0, 0
			// sawCol: the current position contains a column name of its own
			// (a sub-query / expression): its placeholders are governed by
			// the nearest column instead of the list position
			sawCol := false
			j := i
			for ; j < len(ts); j++ {
				if isP(ts[j], "(") {
					depth++
				} else if isP(ts[j], ")") {
					depth--
					if depth == 0 {
						break
					}
				} else if isP(ts[j], ",") && depth == 1 {
					pos++
					sawCol = false
				} else if isCol(ts, j) {
					sawCol = true
				} else if ts[j].kind == tPH && !sawCol {
					f(row, pos, j)
				}
			}
			i = j + 1
			row++
			if i < len(ts) && isP(ts[i], ",") && i+1 < len(ts) && isP(ts[i+1], "(") {
				i++
				continue
			}
			break
		}
		return i
	}

	for i, t := range ts {
		if isW(t, "VALUES") && i > 0 && i+1 < len(ts) && isP(ts[i+1], "(") {
			cols := colList(i - 1)
			if cols == nil {
				continue
			}
			groups(i+1, func(row, pos, tok int) {
				if pos < len(cols) {
					key := cols[pos]
					if row > 0 {
						key += "#" + itoa(row)
					}
					add("V"+itoa(i)+"/"+itoa(row)+"/"+itoa(pos), key, tok)
				}
			})
		}
		if isW(t, "IN") && i+2 < len(ts) && isP(ts[i+1], "(") && isP(ts[i+2], "(") {
			end := i - 1
			if end >= 0 && isW(ts[end], "NOT") {
				end--
			}
			cols := colList(end)
			if len(cols) < 2 {
				continue
			}
			groups(i+2, func(row, pos, tok int) {
				if pos < len(cols) {
					add("T"+itoa(i)+"/"+itoa(pos), cols[pos], tok)
				}
			})
		}
	}

	for i, t := range ts {
		if t.kind != tPH || assigned[i] {
			continue
		}
		found := false
		depth := 0
		for j := i - 1; j >= 0; j-- {
			// a closed parenthesised group to the left is skipped as a whole
			if isP(ts[j], ")") {
				depth++
				continue
			}
			if isP(ts[j], "(") {
				if depth > 0 {
					depth--
				}
				continue
			}
			if depth > 0 {
				continue
			}
			if isCol(ts, j) {
				add("C"+itoa(j), ts[j].text, i)
				found = true
				break
			}
			if k := keywordKey(ts[j]); k != "" {
				add("C"+itoa(j), k, i)
				found = true
				break
			}
		}
		if !found {
			ungoverned = append(ungoverned, phIndex[i])
		}
	}
	return
}

// keywordKey: keywords that govern a placeholder which has no column of its
// own (the shortest template spellings "?" / "(?)"): LIMIT ?, OFFSET ?,
// FROM ? / INTO ? / UPDATE ? (key TABLE), SELECT ?, ORDER BY ?, and a bare
// condition after WHERE / HAVING / ON / AND / OR (key COND).
func keywordKey(t token) string {
	if t.kind != tWord {
		return ""
	}
	switch t.text {
	case "LIMIT", "OFFSET", "SELECT", "ORDER":
		return t.text
	case "FROM", "INTO", "UPDATE":
		return "TABLE"
	case "WHERE", "HAVING", "ON", "AND", "OR":
		return "COND"
	}
	return ""
}

// colsPresent returns the set of column names occurring in the text.
func colsPresent(ts []token) map[string]bool {
	m := map[string]bool{}
	for i := range ts {
		if isCol(ts, i) {
			m[ts[i].text] = true
		} else if k := keywordKey(ts[i]); k != "" {
			m[k] = true
		}
	}
	return m
}

func itoa(n int) string {
	if n == 0 {
		return "0"
	}
	var b [20]byte
	i := len(b)
	neg := n < 0
	if neg {
		n = -n
	}
	for n > 0 {
		i--
		b[i] = byte('0' + n%10)
		n /= 10
	}
	if neg {
		i--
		b[i] = '-'
	}
	return string(b[i:])
}
