package main

import (
	"errors"
	"fmt"
	"regexp"
	"sort"
	"strings"

	"gorm.io/gorm"
)

// finding is one oracle failure: kind (histogrammed) + detail.
type finding struct {
	Kind   string
	Detail string
}

// ---------------------------------------------------------------------------
// driver log classification

var reStmt = regexp.MustCompile("(?is)^\\s*(INSERT)\\s+INTO\\s+[`\"\\[]?([A-Za-z_]+)|^\\s*(UPDATE)\\s+[`\"\\[]?([A-Za-z_]+)|^\\s*(DELETE)\\s+FROM\\s+[`\"\\[]?([A-Za-z_]+)|^\\s*(SELECT)\\s.*?\\sFROM\\s+[`\"\\[]?([A-Za-z_]+)")

type stmtEv struct {
	Seq    int
	Conn   int
	Verb   string
	Table  string
	PTable string // phase table (root statement vs nested statement on the same table)
	Batch  int
}

func classify(sql string) (verb, table string) {
	m := reStmt.FindStringSubmatch(sql)
	if m == nil {
		return "", ""
	}
	for i := 1; i < len(m); i += 2 {
		if m[i] != "" {
			return strings.ToUpper(m[i]), strings.ToLower(m[i+1])
		}
	}
	return "", ""
}

// ---------------------------------------------------------------------------
// phases: (table, kind) with kind B (before-hooks), S (statement), A (after-hooks)

type phase struct {
	Batch int
	Table string
	Kind  byte
}

func (p phase) String() string {
	if p.Batch > 0 {
		return fmt.Sprintf("batch%d/%s/%c", p.Batch, p.Table, p.Kind)
	}
	return p.Table + "/" + string(p.Kind)
}

func isRootTable(t string) bool {
	return t == "owners" || t == "nodes" || t == "staffs" || t == "subs"
}

// belongs-to records are saved before their parents' statement
func isBelongsTable(t string) bool { return t == "companies" }

func rank(p phase) int {
	base := 5 // has-one / has-many / many2many: after the parents' statement
	switch {
	case isRootTable(p.Table):
		switch p.Kind {
		case 'B':
			return 0
		case 'S':
			return 4
		default:
			return 8
		}
	case isBelongsTable(p.Table):
		base = 1
	}
	switch p.Kind {
	case 'B':
		return base
	case 'S':
		return base + 1
	default:
		return base + 2
	}
}

// precedes: p is an earlier phase of the operation than q. Phases of two
// different child tables are not ordered by the property.
func precedes(p, q phase) bool {
	if p.Batch != q.Batch {
		return p.Batch < q.Batch // batches of a batched create run one after the other
	}
	if p.Table != q.Table && !isRootTable(p.Table) && !isRootTable(q.Table) {
		return false
	}
	return rank(p) < rank(q)
}

func hookPhase(ev hookEv) phase {
	if ev.before() {
		return phase{ev.Batch, ev.PTable, 'B'}
	}
	return phase{ev.Batch, ev.PTable, 'A'}
}

// ---------------------------------------------------------------------------
// applicable hooks

type family struct {
	B []string
	A []string
}

var (
	famCreate = family{[]string{"BeforeSave", "BeforeCreate"}, []string{"AfterCreate", "AfterSave"}}
	famUpdate = family{[]string{"BeforeSave", "BeforeUpdate"}, []string{"AfterUpdate", "AfterSave"}}
	famDelete = family{[]string{"BeforeDelete"}, []string{"AfterDelete"}}
	famFind   = family{nil, []string{"AfterFind"}}
)

// families returns the hook families acceptable for a record of the given
// table in this program. Where the property does not say whether the create
// or the update hooks are "applicable" (Save of a slice is an upsert through
// the create pipeline; children are upserted), either family is accepted, but
// one record must use one family consistently.
func families(c Case, table string) []family {
	fs := familiesAll(c, table)
	if c.Subset == "" {
		return fs
	}
	// a model that implements a subset of the hooks: only those apply
	var out []family
	for _, f := range fs {
		var g family
		for _, h := range f.B {
			if implemented(c.Subset, h) {
				g.B = append(g.B, h)
			}
		}
		for _, h := range f.A {
			if implemented(c.Subset, h) {
				g.A = append(g.A, h)
			}
		}
		out = append(out, g)
	}
	return out
}

func familiesAll(c Case, table string) []family {
	switch {
	case !c.isWrite():
		return []family{famFind}
	case c.Op == "delete":
		return []family{famDelete}
	case !isRootTable(table):
		return []family{famCreate, famUpdate}
	case c.isCreate():
		return []family{famCreate}
	case c.isUpdate():
		return []family{famUpdate}
	case c.Op == "save_existing" && c.Shape == "ptr_struct":
		return []family{famUpdate}
	case c.Op == "save_missing":
		// Save of a set key without a row: the property does not say which
		// family applies, but one family, each hook once (gorm: the update
		// hooks around the 0-row UPDATE, then a hook-less upsert)
		return []family{famUpdate, famCreate}
	}
	return []family{famCreate, famUpdate}
}

func isSubseq(sub, full []string) bool {
	i := 0
	for _, f := range full {
		if i < len(sub) && sub[i] == f {
			i++
		}
	}
	return i == len(sub)
}

func eq(a, b []string) bool { return strings.Join(a, ",") == strings.Join(b, ",") }

const (
	stComplete = iota
	stPartial
	stForbidden
)

// ---------------------------------------------------------------------------

func judge(o *Obs) (fs []finding) {
	c := o.Case
	add := func(kind, format string, a ...interface{}) {
		fs = append(fs, finding{kind, fmt.Sprintf(format, a...)})
	}
	if o.Panic != "" {
		add("panic inside gorm", "%s", o.Panic)
		return
	}
	if o.Leaks != "" {
		add("transaction or connection leaked", "%s", o.Leaks)
		return
	}

	// ---- outside the alphabet proper: non-addressable arguments
	if c.nonAddressable() {
		if !errors.Is(o.Err, gorm.ErrInvalidValue) {
			add("non-addressable argument not rejected with ErrInvalidValue", "err=%v", o.Err)
		}
		if len(o.Log) != 0 {
			add("hooks ran for a non-addressable argument", "%d hook calls", len(o.Log))
		}
		if !snapEqual(o.Pre, o.Post, allTables...) {
			add("rejected operation changed the tables", "")
		}
		return
	}

	// ---- driver log: statements, markers, transaction windows
	var stmts []stmtEv
	var markers []stmtEv
	var begins, commits, rollbacks []int
	rootInserts := 0
	for _, ev := range o.Events {
		switch ev.Kind {
		case "begin":
			begins = append(begins, ev.Seq)
		case "commit":
			commits = append(commits, ev.Seq)
		case "rollback":
			rollbacks = append(rollbacks, ev.Seq)
		case "exec", "query", "stmt_exec", "stmt_query":
			verb, table := classify(ev.SQL)
			if verb == "" {
				continue
			}
			se := stmtEv{Seq: ev.Seq, Conn: ev.Conn, Verb: verb, Table: table, PTable: table}
			if isHookTable(table) {
				markers = append(markers, se)
				continue
			}
			mainVerb := "INSERT"
			if !c.isWrite() {
				mainVerb = "SELECT"
			}
			if table == c.rootTable() && verb == mainVerb {
				rootInserts++
				if c.Graph != "" && rootInserts > 1 {
					// the argument's own records are inserted first; later
					// inserts into the same table save records reached through Peers
					se.PTable = "nodes:nested"
				}
			}
			if c.Batch > 0 && rootInserts > 0 {
				se.Batch = rootInserts - 1
			}
			stmts = append(stmts, se)
		}
	}

	// ---- in-memory records the operation is about
	recs := o.Before
	if !c.isWrite() {
		// loaded records: the roots found in the destination; the children to
		// be preloaded follow from the seed rows of those roots (after a failing
		// child hook gorm does not attach them, so they cannot be read from
		// the destination)
		recs = nil
		if c.Op == "find_batches" {
			// the destination holds the last batch only: the loaded records are the matching rows
			for id := uint(1); id <= uint(c.Len); id++ {
				recs = append(recs, record{Ident: fmt.Sprintf("owners#%d", id), Table: "owners", ID: id, Name: fmt.Sprintf("o%d", id), Root: int(id - 1)})
				if c.Kids == "both" {
					recs = append(recs, record{Ident: fmt.Sprintf("pets#%d", id), Table: "pets", ID: id, Root: int(id - 1)})
					recs = append(recs, record{Ident: fmt.Sprintf("toys#%d", 2*id-1), Table: "toys", ID: 2*id - 1, Root: int(id - 1)})
					recs = append(recs, record{Ident: fmt.Sprintf("toys#%d", 2*id), Table: "toys", ID: 2 * id, Root: int(id - 1)})
				}
			}
		}
		for _, r := range o.After {
			if c.Op == "find_batches" {
				break
			}
			if r.Table == c.rootTable() && r.ID != 0 {
				recs = append(recs, r)
				if c.Kids == "both" {
					recs = append(recs, record{Ident: fmt.Sprintf("pets#%d", r.ID), Table: "pets", ID: r.ID, Root: r.Root})
					recs = append(recs, record{Ident: fmt.Sprintf("toys#%d", 2*r.ID-1), Table: "toys", ID: 2*r.ID - 1, Root: r.Root})
					recs = append(recs, record{Ident: fmt.Sprintf("toys#%d", 2*r.ID), Table: "toys", ID: 2 * r.ID, Root: r.Root})
				}
			}
		}
	}

	// ---- no hooks at all: SkipHooks sessions, UpdateColumn(s), no records
	if c.Mode != "hooks" {
		if len(o.Log) != 0 {
			add("hooks ran although hooks are skipped ("+c.Mode+")", "%s", hookNames(o.Log))
		}
		if c.Len > 0 {
			if o.Err != nil {
				add("unexpected error", "%v", o.Err)
			} else {
				mainEffect(o, recs, add)
			}
		}
		if !snapEqual(o.Pre, o.Post, "audits") {
			add("audit table changed although no hook may run", "")
		}
		return
	}
	if c.Len == 0 {
		if len(o.Log) != 0 {
			add("hooks ran although there is no record", "%s", hookNames(o.Log))
		}
		if !snapEqual(o.Pre, o.Post, allTables...) {
			add("operation without records changed the tables", "")
		}
		return
	}

	// ---- every hook invocation: known record, marker write, pool identity
	var firstFail *hookEv
	failPos := -1
	for i := range o.Log {
		ev := &o.Log[i]
		if ev.Fail != nil && firstFail == nil {
			firstFail = ev
			failPos = i
		}
		if ev.Ident == "?" {
			add("hook ran on a value that is not an in-memory record of the argument", "%s.%s id=%d name=%q", ev.Table, ev.Hook, ev.ID, ev.Name)
		}
		if ev.MarkerErr != "" {
			add("write through the hook's tx failed", "%s %s.%s: %s", ev.Ident, ev.Table, ev.Hook, ev.MarkerErr)
		}
	}
	wantTx := c.isWrite() || c.Outer == "begin"
	for _, ev := range o.Log {
		switch {
		case c.Outer == "begin":
			if ev.Pool != o.OuterPool {
				add("hook does not see the operation's transaction", "%s %s.%s sees pool %s, the operation runs in the caller's transaction", ev.Ident, ev.Table, ev.Hook, poolName(o, ev.Pool))
			}
		case c.isWrite():
			if ev.Pool == o.DBPool {
				add("hook does not see the operation's transaction", "%s %s.%s sees the connection pool, not the transaction of the operation", ev.Ident, ev.Table, ev.Hook)
			} else if ev.Pool != o.Log[0].Pool {
				add("hooks of one operation see different transactions", "%s %s.%s", ev.Ident, ev.Table, ev.Hook)
			}
		default:
			if ev.Pool != o.DBPool {
				add("hook of a query outside a transaction sees pool "+poolName(o, ev.Pool), "%s %s.%s", ev.Ident, ev.Table, ev.Hook)
			}
		}
	}
	// transaction windows (BEGIN .. COMMIT/ROLLBACK on one connection)
	type window struct{ lo, hi, conn int }
	var windows []window
	open := map[int]int{}
	for _, ev := range o.Events {
		switch ev.Kind {
		case "begin":
			open[ev.Conn] = ev.Seq
		case "commit", "rollback":
			if lo, ok := open[ev.Conn]; ok {
				windows = append(windows, window{lo, ev.Seq, ev.Conn})
				delete(open, ev.Conn)
			}
		}
	}
	// Save of a missing row is two pipelines (UPDATE, then upsert), each in
	// its own default transaction; every other operation is one transaction
	maxTx := 1
	if c.Op == "save_missing" && c.Outer != "begin" {
		maxTx = 2
	}
	hookOwnTx := !wantTx && c.Body != "" // hooks of a query outside a transaction: their writes open their own transactions
	if wantTx {
		switch {
		case len(begins) < 1 || len(begins) > maxTx:
			add("operation did not run in exactly one transaction", "%d BEGINs", len(begins))
		case len(commits)+len(rollbacks) != len(begins):
			add("operation did not end its transaction exactly once", "%d begins, %d commits, %d rollbacks", len(begins), len(commits), len(rollbacks))
		default:
			for _, s := range append(append([]stmtEv{}, stmts...), markers...) {
				in := false
				for _, w := range windows {
					if s.Seq > w.lo && s.Seq < w.hi && s.Conn == w.conn {
						in = true
					}
				}
				if !in {
					add("statement or hook write outside the operation's transaction", "#%d %s %s on conn %d (transactions: %v)", s.Seq, s.Verb, s.Table, s.Conn, windows)
				}
			}
		}
	} else if len(begins) != 0 && !hookOwnTx {
		add("query opened a transaction", "%d BEGINs", len(begins))
	}
	wantMarkers, wantHits := 0, 0
	for _, ev := range o.Log {
		wantMarkers += ev.Stmts
		wantHits += ev.Incr
	}
	if len(markers) != wantMarkers {
		add("number of hook writes in the driver log differs from the hook log", "%d vs %d", len(markers), wantMarkers)
	}

	// ---- error
	if firstFail == nil {
		if o.Err != nil {
			add("unexpected error", "%v", o.Err)
		}
	} else {
		is := false
		for _, e := range o.Errs {
			if errors.Is(o.Err, e) {
				is = true
			}
		}
		if len(o.Errs) == 1 && !errors.Is(o.Err, o.Errs[0]) {
			is = false
		}
		if !is {
			add("hook error not returned", "returned %v, injected %v", o.Err, o.Errs)
		}
	}

	// ---- phase status
	status := func(p phase) int {
		if firstFail == nil {
			return stComplete
		}
		fp := hookPhase(*firstFail)
		switch {
		case precedes(p, fp):
			return stComplete
		case precedes(fp, p):
			return stForbidden
		}
		return stPartial
	}

	// which child tables take part (see families(): children of update-like
	// operations may or may not be saved; if they are, their hooks must be right)
	active := map[string]bool{c.rootTable(): true}
	for _, ev := range o.Log {
		active[ev.PTable] = true
	}
	for _, s := range stmts {
		active[s.PTable] = true
	}
	if c.isCreate() || !c.isWrite() {
		for _, r := range recs {
			active[r.ptable()] = true
		}
	}
	batchOf := func(r record) int {
		if c.Batch > 0 {
			return r.Root / c.Batch
		}
		return 0
	}

	// ---- later phases after the first failing hook
	if firstFail != nil {
		fp := hookPhase(*firstFail)
		for i := failPos + 1; i < len(o.Log); i++ {
			if p := hookPhase(o.Log[i]); precedes(fp, p) {
				add("hook of a later phase ran after a hook error", "%s %s.%s (phase %s) after the error in phase %s", o.Log[i].Ident, o.Log[i].Table, o.Log[i].Hook, p, fp)
			}
		}
		for _, s := range stmts {
			if s.Seq >= firstFail.Seq && precedes(fp, phase{s.Batch, s.PTable, 'S'}) {
				add("statement of a later phase ran after a hook error", "#%d %s %s after the error in phase %s", s.Seq, s.Verb, s.Table, fp)
			}
		}
	}

	// ---- per record: exactly once, documented order, relative to the statement
	byIdent := map[string][]hookEv{}
	for _, ev := range o.Log {
		byIdent[ev.Ident] = append(byIdent[ev.Ident], ev)
	}
	known := map[string]bool{}
	for _, r := range recs {
		known[r.Ident] = true
		if !active[r.ptable()] {
			continue
		}
		evs := byIdent[r.Ident]
		var bs, as []string
		var bev, aev []hookEv
		lastB, firstA := -1, 1<<30
		for _, ev := range evs {
			if ev.before() {
				bs = append(bs, ev.Hook)
				bev = append(bev, ev)
			} else {
				as = append(as, ev.Hook)
				aev = append(aev, ev)
			}
		}
		for i, ev := range o.Log {
			if ev.Ident != r.Ident {
				continue
			}
			if ev.before() {
				lastB = i
			} else if i < firstA {
				firstA = i
			}
		}
		if lastB > firstA {
			add("before-hook ran after an after-hook of the same record", "%s: %s", r.Ident, hookNames(evs))
		}
		sb, sa := status(phase{batchOf(r), r.ptable(), 'B'}), status(phase{batchOf(r), r.ptable(), 'A'})
		ok := false
		for _, f := range families(c, r.ptable()) {
			okB := (sb == stComplete && eq(bs, f.B)) || (sb == stPartial && isSubseq(bs, f.B)) || (sb == stForbidden && len(bs) == 0)
			okA := (sa == stComplete && eq(as, f.A)) || (sa == stPartial && isSubseq(as, f.A)) || (sa == stForbidden && len(as) == 0)
			if okB && okA {
				ok = true
			}
		}
		if !ok {
			want := []string{}
			for _, f := range families(c, r.ptable()) {
				want = append(want, strings.Join(append(append([]string{}, f.B...), f.A...), ","))
			}
			st := []string{"each exactly once", "each at most once", "none"}
			add("hooks of a record not called once each in the documented order", "record %s (%s): got [%s]; expected before-hooks: %s, after-hooks: %s of [%s]", r.Ident, r.Table, hookNames(evs), st[sb], st[sa], strings.Join(want, " | "))
		}
		// relative to the statement on the record's table
		ss := status(phase{batchOf(r), r.ptable(), 'S'})
		if ss == stForbidden || (ss == stPartial && len(aev) == 0) {
			continue
		}
		lo, hi := -1, 1<<30
		for _, ev := range bev {
			if ev.Seq > lo {
				lo = ev.Seq
			}
		}
		for _, ev := range aev {
			if ev.Seq < hi {
				hi = ev.Seq
			}
		}
		found := false
		for _, s := range stmts {
			if s.PTable == r.ptable() && s.Batch == batchOf(r) && s.Seq >= lo && s.Seq < hi {
				found = true
			}
		}
		if !found && (ss == stComplete || len(aev) > 0) {
			add("no statement on the record's table between its before- and after-hooks", "record %s (%s): hooks [%s], statements %v", r.Ident, r.Table, hookNames(evs), stmts)
		}
	}
	var unknown []string
	for id := range byIdent {
		if !known[id] && id != "?" {
			unknown = append(unknown, id)
		}
	}
	sort.Strings(unknown)
	for _, id := range unknown {
		add("hooks ran for a record the operation is not about", "%s: %s", id, hookNames(byIdent[id]))
	}

	// ---- FindInBatches: the batch function is called for every batch that
	// was loaded without error, and for no other
	if c.Op == "find_batches" {
		nBatches := (c.Len + c.Batch - 1) / c.Batch
		if firstFail != nil {
			nBatches = firstFail.Batch // batches before the failing one
		}
		var want, got []string
		for b := 0; b < nBatches; b++ {
			var ids []uint
			for id := b*c.Batch + 1; id <= (b+1)*c.Batch && id <= c.Len; id++ {
				ids = append(ids, uint(id))
			}
			want = append(want, fmt.Sprintf("batch %d %v", b+1, ids))
		}
		for _, f := range o.FnCalls {
			got = append(got, fmt.Sprintf("batch %d %v", f.Batch, f.IDs))
		}
		if !eq(want, got) {
			kind := "batch function not called once per loaded batch"
			if firstFail != nil {
				kind = "batch function called for a batch whose hook failed (or a later one)"
			}
			add(kind, "calls %v, expected %v", got, want)
		}
	}

	// ---- effects
	if firstFail != nil {
		switch {
		case wantTx:
			if !snapEqual(o.Pre, o.Post, allTables...) {
				add("tables differ from the pre-state after a hook error", "%s", diffTables(o))
			}
			if c.Outer != "begin" && (len(commits) != 0 || len(rollbacks) != 1) {
				add("transaction not rolled back after a hook error", "%d commits, %d rollbacks", len(commits), len(rollbacks))
			}
		default:
			// a query outside a transaction: nothing to roll back; the data
			// tables must be untouched, the hooks' own writes stay
			if !snapEqual(o.Pre, o.Post, "owners", "pets", "toys", "subs") {
				add("query changed the data tables", "%s", diffTables(o))
			}
		}
		return
	}
	if o.Err != nil {
		return
	}
	if wantTx && c.Outer != "begin" && (len(commits) < 1 || len(commits) > maxTx || len(rollbacks) != 0) {
		add("successful operation not committed", "%d commits, %d rollbacks", len(commits), len(rollbacks))
	}
	// audit rows = seed + one per hook invocation
	var wantAud, gotAud []string
	for _, ev := range o.Log {
		wantAud = append(wantAud, ev.Hook+"|"+ev.Table+"|"+ev.Name)
	}
	for _, r := range o.Post["audits"] {
		m := parseRow(r)
		if m["hook"] != "seed" {
			gotAud = append(gotAud, m["hook"]+"|"+m["tbl"]+"|"+m["name"])
		}
	}
	sort.Strings(wantAud)
	sort.Strings(gotAud)
	if !eq(wantAud, gotAud) {
		add("hook writes not stored with the successful operation", "want %v got %v", wantAud, gotAud)
	}
	if row := rowByID(o.Post, "stats", 1); row == nil || row["hits"] != fmt.Sprint(wantHits) {
		add("hook writes not stored with the successful operation", "stats row %v, the hooks incremented hits %d times", row, wantHits)
	}
	mainEffect(o, recs, add)
	// stored values = values set by the before-hooks
	if c.isWrite() && c.Op != "delete" {
		after := map[string]record{}
		for _, r := range o.After {
			after[r.Ident] = r
		}
		existingChild := map[string]bool{}
		for _, r := range o.Before {
			if (c.Op == "save_existing" && r.Table != "owners" || c.Belongs != "" && r.Table == "companies") && r.ID != 0 {
				// an existing child is only re-linked by its parent's save
				// (ON CONFLICT DO UPDATE of the foreign key): its other columns
				// are documented not to be stored without FullSaveAssociations
				existingChild[r.Ident] = true
			}
		}
		for _, ev := range o.Log {
			if ev.SetCol == "" || ev.Ident == "?" || existingChild[ev.Ident] {
				continue
			}
			r, ok := after[ev.Ident]
			if !ok {
				continue
			}
			row := rowByID(o.Post, ev.Table, r.ID)
			if row == nil {
				add("row of a saved record not found", "record %s (%s) id=%d", ev.Ident, ev.Table, r.ID)
				continue
			}
			if got := row[strings.ToLower(ev.SetCol)]; got != ev.SetVal {
				add("stored value differs from the value set by the before-hook", "record %s (%s id=%d): %s set %s=%q, stored %q", ev.Ident, ev.Table, r.ID, ev.Hook, ev.SetCol, ev.SetVal, got)
			}
			if ev.SetVer != 0 && row["ver"] != fmt.Sprint(ev.SetVer) {
				add("stored value differs from the value set by the before-hook", "record %s (%s id=%d): %s set Ver=%d (one increment), stored %s", ev.Ident, ev.Table, r.ID, ev.Hook, ev.SetVer, row["ver"])
			}
		}
	}
	return
}

// mainEffect: the operation did what it is for (keeps the run non-vacuous).
func mainEffect(o *Obs, recs []record, add func(kind, format string, a ...interface{})) {
	c := o.Case
	rt := c.rootTable()
	after := map[string]record{}
	for _, r := range o.After {
		after[r.Ident] = r
	}
	switch {
	case c.isCreate() || c.Op == "save_existing" || c.Op == "save_missing":
		if c.Graph != "" {
			// every edge of the graph has its join row
			var want, got []string
			seenEdge := map[string]bool{}
			for _, e := range o.Edges {
				k := fmt.Sprintf("node_id=%d|peer_id=%d", e[0].ID, e[1].ID)
				if !seenEdge[k] {
					seenEdge[k] = true
					want = append(want, k)
				}
			}
			got = append(got, o.Post["node_peers"]...)
			sort.Strings(want)
			sort.Strings(got)
			if !eq(want, got) {
				add("join rows differ from the edges of the saved graph", "got %v want %v", got, want)
			}
		}
		for _, r := range recs {
			if r.Table != rt && c.Op == "save_existing" && c.Shape == "ptr_struct" {
				continue // Save(&existing) selects "*": associations are not saved
			}
			a := after[r.Ident]
			row := rowByID(o.Post, r.Table, a.ID)
			if a.ID == 0 || row == nil {
				add("saved record has no row", "record %s (%s) id=%d", r.Ident, r.Table, a.ID)
				continue
			}
			if isRootTable(r.Table) && row["name"] != r.Name {
				add("saved row has the wrong name", "record %s (%s) id=%d: %q vs %q", r.Ident, r.Table, a.ID, row["name"], r.Name)
			}
		}
	case c.isUpdate():
		for _, r := range recs {
			if r.Table != rt {
				continue
			}
			if row := rowByID(o.Post, rt, r.ID); row == nil || row["note"] != "u" {
				add("update did not reach the row of a model record", "record %s id=%d row=%v", r.Ident, r.ID, row)
			}
		}
	case c.Op == "delete":
		for _, r := range recs {
			if row := rowByID(o.Post, rt, r.ID); row != nil {
				add("delete left the row of a record", "record %s id=%d", r.Ident, r.ID)
			}
		}
	default:
		want := c.Len
		if c.Shape == "ptr_struct" && want > 1 {
			want = 1
		}
		n := 0
		for _, r := range recs {
			if r.Table == rt {
				n++
				if r.Name != fmt.Sprintf("o%d", r.ID) {
					add("loaded record does not match its row", "record %s id=%d name=%q", r.Ident, r.ID, r.Name)
				}
			}
		}
		if n != want {
			add("number of loaded records differs from the number of matching rows", "%d vs %d", n, want)
		}
		var wantKids, gotKids []string
		for _, r := range recs {
			if r.Table != rt {
				wantKids = append(wantKids, r.Ident)
			}
		}
		for _, r := range o.After {
			if r.Table != rt {
				gotKids = append(gotKids, fmt.Sprintf("%s#%d", r.Table, r.ID))
			}
		}
		sort.Strings(wantKids)
		sort.Strings(gotKids)
		if c.Op != "find_batches" && !eq(wantKids, gotKids) {
			add("preloaded children differ from the rows of the loaded parents", "%v vs %v", gotKids, wantKids)
		}
		if !snapEqual(o.Pre, o.Post, "owners", "pets", "toys", "subs") {
			add("query changed the data tables", "%s", diffTables(o))
		}
	}
}

func hookNames(evs []hookEv) string {
	var out []string
	for _, ev := range evs {
		s := ev.Hook
		if ev.Fail != nil {
			s += "!"
		}
		out = append(out, s)
	}
	return strings.Join(out, ",")
}

func diffTables(o *Obs) string {
	var sb strings.Builder
	for _, t := range allTables {
		pre := map[string]bool{}
		for _, r := range o.Pre[t] {
			pre[r] = true
		}
		post := map[string]bool{}
		for _, r := range o.Post[t] {
			post[r] = true
			if !pre[r] {
				sb.WriteString("+ " + t + ": " + r + "\n")
			}
		}
		for _, r := range o.Pre[t] {
			if !post[r] {
				sb.WriteString("- " + t + ": " + r + "\n")
			}
		}
	}
	return sb.String()
}
