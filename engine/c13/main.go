// C13 — hooks run once per record, in the documented order, in the operation's
// transaction.
//
// E1 fault enumeration on the real gorm code: every program of the alphabet
// (operation x argument shape x length x children x SkipHooks/UpdateColumn x
// own/caller's transaction) is executed on SQLite behind the recording driver
// with models whose nine hooks log (record address, hook, ConnPool) and write
// a marker row through tx; every hook invocation is a choice point
// (return nil / return an error). quick = all executions with <= 1 failing
// hook, thorough = <= 2.
package main

import (
	"fmt"
	"os"
	"strings"
	"sync"
	"sync/atomic"
	"time"

	"verif/mc"
)

var writeShapes = []string{"ptr_struct", "ptr_slice", "slice_val", "slice_ptr", "ptr_slice_ptr", "ptr_array"}
var findShapes = []string{"ptr_struct", "ptr_slice", "ptr_slice_ptr", "ptr_array"}

func lensOf(shape string) []int {
	if shape == "ptr_struct" {
		return []int{1}
	}
	return []int{0, 1, 2, 3}
}

// programs enumerates the alphabet.
func programs() []Case {
	var out []Case
	seen := map[string]bool{}
	add := func(c Case) {
		if c.Kids == "none" && c.PtrKids {
			return // the root type only differs in how children are held
		}
		if c.Len == 0 && c.Kids != "none" && c.isWrite() {
			return
		}
		if k := c.key(); !seen[k] {
			seen[k] = true
			out = append(out, c)
		}
	}
	for _, ptr := range []bool{false, true} {
		for _, outer := range []string{"implicit", "begin"} {
			for _, op := range []string{"create", "save_new", "save_existing"} {
				for _, sh := range writeShapes {
					for _, n := range lensOf(sh) {
						for _, kids := range []string{"none", "pet", "toys", "both"} {
							for _, mode := range []string{"hooks", "skiphooks"} {
								add(Case{Op: op, Shape: sh, Len: n, Kids: kids, PtrKids: ptr, Mode: mode, Outer: outer})
							}
						}
					}
				}
			}
			for _, op := range []string{"update", "updates_struct", "updates_map"} {
				for _, sh := range writeShapes {
					for _, n := range lensOf(sh) {
						for _, kids := range []string{"none", "both"} {
							for _, mode := range []string{"hooks", "skiphooks", "column"} {
								add(Case{Op: op, Shape: sh, Len: n, Kids: kids, PtrKids: ptr, Mode: mode, Outer: outer})
							}
						}
					}
				}
			}
			for _, sh := range writeShapes {
				for _, n := range lensOf(sh) {
					for _, mode := range []string{"hooks", "skiphooks"} {
						add(Case{Op: "delete", Shape: sh, Len: n, Kids: "none", PtrKids: ptr, Mode: mode, Outer: outer})
					}
				}
			}
			for _, sh := range findShapes {
				ks := []int{0, 1, 2, 3}
				if sh == "ptr_struct" {
					ks = []int{0, 1, 3}
				}
				if sh == "ptr_array" {
					ks = []int{1, 2, 3}
				}
				for _, k := range ks {
					for _, kids := range []string{"none", "both"} {
						for _, mode := range []string{"hooks", "skiphooks"} {
							add(Case{Op: "find", Shape: sh, Len: k, Kids: kids, PtrKids: ptr, Mode: mode, Outer: outer})
							if sh == "ptr_struct" {
								add(Case{Op: "first", Shape: sh, Len: k, Kids: kids, PtrKids: ptr, Mode: mode, Outer: outer})
							}
						}
					}
				}
			}
		}
	}
	// batched creates: CreateInBatches(arg, size) and Session{CreateBatchSize: size}.Create(arg)
	for _, op := range []string{"create_batches", "create_batchsize"} {
		for _, ls := range [][2]int{{1, 2}, {2, 2}, {3, 2}, {4, 2}, {5, 2}, {5, 3}, {4, 3}} {
			for _, sh := range []string{"ptr_slice", "ptr_slice_ptr", "slice_val"} {
				for _, kids := range []string{"none", "pet"} {
					for _, outer := range []string{"implicit", "begin"} {
						for _, mode := range []string{"hooks", "skiphooks"} {
							if mode == "skiphooks" && (kids != "none" || outer != "implicit") {
								continue
							}
							add(Case{Op: op, Shape: sh, Len: ls[0], Batch: ls[1], Kids: kids, PtrKids: kids != "none" && sh == "ptr_slice_ptr", Mode: mode, Outer: outer})
						}
					}
				}
			}
		}
	}
	// graphs with shared records (self-referential many2many, root type Node)
	for _, g := range []string{"chain", "triangle", "diamond", "fan3", "cycle", "two_roots", "two_roots_tri"} {
		for _, preset := range []bool{false, true} {
			for _, op := range []string{"create", "save_new"} {
				if preset && op == "save_new" {
					continue // Save of a non-zero, non-existing key: outside the alphabet
				}
				for _, outer := range []string{"implicit", "begin"} {
					for _, mode := range []string{"hooks", "skiphooks"} {
						sh, n := "ptr_struct", 1
						if strings.HasPrefix(g, "two_roots") {
							sh, n = "ptr_slice_ptr", 2
						}
						add(Case{Op: op, Shape: sh, Len: n, Kids: "none", Mode: mode, Outer: outer, Graph: g, Preset: preset})
					}
				}
			}
		}
	}
	// belongs-to with hooks: slices of Staff whose Company pointers are distinct / shared
	for _, bel := range []string{"distinct", "shared2", "shared_all"} {
		for _, stored := range []bool{true, false} {
			for _, op := range []string{"create", "save_new"} {
				for _, sh := range []string{"ptr_slice", "slice_val", "slice_ptr", "ptr_slice_ptr"} {
					for _, n := range []int{2, 3} {
						for _, outer := range []string{"implicit", "begin"} {
							for _, mode := range []string{"hooks", "skiphooks"} {
								if mode == "skiphooks" && (outer != "implicit" || sh != "ptr_slice") {
									continue
								}
								add(Case{Op: op, Shape: sh, Len: n, Kids: "none", Mode: mode, Outer: outer, Belongs: bel, Preset: stored})
							}
						}
					}
				}
			}
		}
	}
	// models implementing a SUBSET of the hooks: exactly {h}, and all but h
	for _, h := range allHooks {
		for _, sub := range []string{"only:" + h, "allbut:" + h} {
			for _, op := range []string{"create", "save_new", "save_existing", "update", "updates_struct", "delete", "find", "first"} {
				for _, sh := range []string{"ptr_struct", "ptr_slice", "slice_ptr"} {
					n := 2
					if sh == "ptr_struct" {
						n = 1
					}
					if (op == "find" || op == "first") && sh == "slice_ptr" {
						continue
					}
					if op == "first" && sh != "ptr_struct" {
						continue
					}
					add(Case{Op: op, Shape: sh, Len: n, Kids: "none", Mode: "hooks", Outer: "implicit", Subset: sub})
				}
			}
		}
	}
	// reads that iterate: FindInBatches, hook failures at every batch x record
	for _, ls := range [][2]int{{1, 1}, {2, 1}, {3, 1}, {2, 2}, {3, 2}, {3, 3}} {
		for _, sh := range []string{"ptr_slice", "ptr_slice_ptr"} {
			for _, kids := range []string{"none", "both"} {
				for _, outer := range []string{"implicit", "begin"} {
					for _, mode := range []string{"hooks", "skiphooks"} {
						if mode == "skiphooks" && (outer != "implicit" || sh != "ptr_slice") {
							continue
						}
						add(Case{Op: "find_batches", Shape: sh, Len: ls[0], Batch: ls[1], Kids: kids, PtrKids: kids != "none" && sh == "ptr_slice_ptr", Mode: mode, Outer: outer})
					}
				}
			}
		}
	}
	// Save of a record whose primary key is set but whose row does not exist
	for _, outer := range []string{"implicit", "begin"} {
		for _, mode := range []string{"hooks", "skiphooks"} {
			add(Case{Op: "save_missing", Shape: "ptr_struct", Len: 1, Kids: "none", Mode: mode, Outer: outer})
		}
	}
	// hook bodies that issue several statements through one derived handle:
	// a representative slice of the programs above is repeated with each body
	base := append([]Case{}, out...)
	for _, body := range []string{"handle", "session", "create_update"} {
		for _, c := range base {
			if c.Mode != "hooks" || c.PtrKids || c.Len < 1 || c.Len > 2 || c.Subset != "" || c.Op == "find_batches" {
				continue
			}
			if c.Shape != "ptr_struct" && c.Shape != "ptr_slice" && c.Shape != "ptr_slice_ptr" {
				continue
			}
			if c.Shape == "ptr_slice_ptr" && c.Graph == "" {
				continue
			}
			if c.Kids == "pet" || c.Kids == "toys" {
				continue
			}
			if c.Graph != "" && (c.Graph != "triangle" && c.Graph != "two_roots" || !c.Preset) {
				continue
			}
			c.Body = body
			add(c)
		}
		for _, outer := range []string{"implicit", "begin"} {
			add(Case{Op: "create_batches", Shape: "ptr_slice", Len: 3, Batch: 2, Kids: "none", Mode: "hooks", Outer: outer, Body: body})
		}
	}
	// handle derivations on the same handle before the operation (the
	// operation then runs on the ORIGINAL handle: hooks must fire as usual),
	// and the converse: a NewDB+SkipHooks session runs none
	for _, pre := range []string{"sess_skiphooks", "sess_skiphooks_used", "sess_newdb_skiphooks", "sess_newdb_skiphooks_used", "sess_newdb_used", "sess_newdb_context_used", "updatecolumn", "withcontext_used", "debug_used"} {
		for _, c := range base {
			if c.Mode != "hooks" || c.PtrKids || c.Len < 1 || c.Len > 2 || c.Graph != "" || c.Batch != 0 || c.Belongs != "" || c.Subset != "" {
				continue
			}
			if c.Shape != "ptr_struct" && c.Shape != "ptr_slice" {
				continue
			}
			if c.Kids == "pet" || c.Kids == "toys" {
				continue
			}
			c.Prelude = pre
			add(c)
		}
	}
	for _, c := range base {
		if c.Mode == "skiphooks" && !c.PtrKids && c.Outer == "implicit" && (c.Shape == "ptr_struct" || c.Shape == "ptr_slice") && c.Len >= 1 && c.Len <= 2 && c.Graph == "" && c.Belongs == "" && c.Batch == 0 {
			c.Mode = "skiphooks_newdb"
			add(c)
		}
	}
	// outside the alphabet proper: non-addressable arguments must be rejected
	for _, op := range []string{"create", "save_new", "save_existing", "update", "delete"} {
		for _, sh := range []string{"val_struct", "val_array"} {
			for _, n := range []int{1, 2} {
				if sh == "val_struct" && n != 1 {
					continue
				}
				add(Case{Op: op, Shape: sh, Len: n, Kids: "none", Mode: "hooks", Outer: "implicit"})
			}
		}
	}
	return out
}

// tags are computed from the input (program + positions of the failing hooks) only.
func tags(c Case, x *mc.Exec) []string {
	t := []string{
		c.Op + "/" + c.Shape,
		c.Op + "/" + c.Shape + "/kids=" + c.Kids,
		c.Op + "/mode=" + c.Mode,
		c.Op + "/outer=" + c.Outer,
	}
	if c.Batch > 0 {
		t = append(t, fmt.Sprintf("%s/len=%d/batch=%d", c.Op, c.Len, c.Batch))
	}
	if c.Body != "" {
		t = append(t, c.Op+"/hookbody="+c.Body)
	}
	if c.Prelude != "" {
		t = append(t, c.Op+"/prelude="+c.Prelude)
	}
	if c.Subset != "" {
		t = append(t, c.Op+"/hooks="+c.Subset)
	}
	if c.Belongs != "" {
		t = append(t, fmt.Sprintf("%s/belongs_to=%s/stored=%v", c.Op, c.Belongs, c.Preset))
		if !c.Preset && c.Belongs != "distinct" {
			// input-side predicate of the third defect found on the unchanged tree
			t = append(t, "belongs-to-new-record-without-key-shared-by-two-parents-of-one-slice")
		}
	}
	if c.Graph != "" {
		t = append(t, fmt.Sprintf("%s/graph=%s/preset=%v", c.Op, c.Graph, c.Preset))
		// input-side predicates of the two defects found on the unchanged tree
		switch {
		case c.Graph == "cycle":
			t = append(t, "graph-cycle-leads-back-to-the-operations-own-record")
		case !c.Preset && (c.Graph == "diamond" || c.Graph == "two_roots" || c.Graph == "two_roots_tri"):
			t = append(t, "graph-new-record-without-key-shared-by-two-parents-of-one-association-batch")
		}
	}
	if x != nil {
		for i, ch := range x.Choices {
			if ch != 0 {
				lab := x.Points[i].Label
				if j := strings.IndexByte(lab, '#'); j >= 0 {
					lab = lab[:j]
				}
				t = append(t, c.Op+"/"+c.Shape+"/fail="+lab, c.Op+"/fail="+lab)
			}
		}
	}
	return t
}

type counters struct {
	executions, points, programs                        int64
	hookCalls, withFailure, failOneRolledBack           int64
	remainingFired, multiRecord, successJudged          int64
	noHookVerified, nonAddr, setColumnChecked, diverged int64
	perBound                                            [3]int64
	maxDepth                                            int64
}

type ctx struct {
	run      *mc.Run
	st       *counters
	distinct *mc.Set
	outcomes *mc.Set
	failAt   *mc.Set
	samples  *mc.Samples
}

// check judges one execution; violating executions are re-run to make sure the
// observation is deterministic before they are reported.
func (cx *ctx) check(w *worker, c Case, x *mc.Exec, o *Obs) {
	st := cx.st
	atomic.AddInt64(&st.executions, 1)
	atomic.AddInt64(&st.points, int64(len(x.Points)))
	atomic.AddInt64(&st.hookCalls, int64(len(o.Log)))
	d := x.Deviations()
	if d < len(st.perBound) {
		atomic.AddInt64(&st.perBound[d], 1)
	}
	fs := judgeOrdered(o)
	if len(fs) == 0 {
		cx.outcomes.Add(o.outcome())
		key := fmt.Sprintf("%s|%v", c.key(), x.ChoiceInts())
		switch {
		case c.nonAddressable():
			atomic.AddInt64(&st.nonAddr, 1)
		case len(o.Log) > 0:
			if cx.distinct.Add(key) {
				cx.samples.Add(fmt.Sprintf("%s fail=%v hooks=[%s]", c, x.Trace(), hookIdentNames(o.Log)))
			}
			if len(o.Errs) > 0 {
				atomic.AddInt64(&st.withFailure, 1)
				atomic.AddInt64(&st.failOneRolledBack, 1)
				seenFail := false
				for _, ev := range o.Log {
					if seenFail && hookPhase(ev) == hookPhase(firstFailOf(o)) {
						atomic.AddInt64(&st.remainingFired, 1)
						break
					}
					if ev.Fail != nil {
						seenFail = true
					}
				}
				for _, ev := range o.Log {
					if ev.Fail != nil {
						cx.failAt.Add(ev.Table + "." + ev.Hook)
					}
				}
			} else {
				atomic.AddInt64(&st.successJudged, 1)
				for _, ev := range o.Log {
					if ev.SetCol != "" {
						atomic.AddInt64(&st.setColumnChecked, 1)
					}
				}
			}
			roots := map[string]bool{}
			for _, ev := range o.Log {
				if isRootTable(ev.PTable) {
					roots[ev.Ident] = true
				}
			}
			if len(roots) >= 2 {
				atomic.AddInt64(&st.multiRecord, 1)
			}
		case c.Mode != "hooks" && c.Len > 0:
			atomic.AddInt64(&st.noHookVerified, 1)
		}
		return
	}
	// determinism: same choice list, same observation
	fp := o.fingerprint()
	for i := 0; i < 2; i++ {
		x2 := mc.NewExec(x.ChoiceInts())
		o2 := w.run(c, x2)
		if o2.fingerprint() != fp || x2.Diverged != "" {
			cx.run.HarnessError("nondeterministic observation for %s choices %v", c, x.ChoiceInts())
			return
		}
	}
	var kinds []string
	var sb strings.Builder
	for _, f := range fs {
		kinds = append(kinds, f.Kind)
		sb.WriteString("* " + f.Kind + ": " + f.Detail + "\n")
	}
	if os.Getenv("VERIF_C13_LIST") != "" {
		fmt.Printf("LIST %s | fail=%v | %s\n", c, x.Trace(), kinds[0])
	}
	msg := fmt.Sprintf("%s\nfailing hooks: %v\n%s%s", kinds[0], x.Trace(), sb.String(), o.describe())
	cx.run.Violation(tags(c, x), msg, Replay{Case: c, Choices: x.ChoiceInts(), Trace: x.Trace(), Readable: c.String()})
}

// judgeOrdered puts the findings that name the property's clauses first and
// the secondary symptoms (the hook's own marker write failed) last, so that the
// violation kind names the clause.
func judgeOrdered(o *Obs) []finding {
	fs := judge(o)
	var head, tail []finding
	for _, f := range fs {
		if strings.HasPrefix(f.Kind, "write through the hook's tx failed") || strings.HasPrefix(f.Kind, "number of hook writes") {
			tail = append(tail, f)
		} else {
			head = append(head, f)
		}
	}
	return append(head, tail...)
}

func firstFailOf(o *Obs) hookEv {
	for _, ev := range o.Log {
		if ev.Fail != nil {
			return ev
		}
	}
	return hookEv{}
}

func hookIdentNames(evs []hookEv) string {
	var out []string
	for _, ev := range evs {
		s := ev.Ident + ":" + ev.Hook
		if ev.Fail != nil {
			s += "!"
		}
		out = append(out, s)
	}
	return strings.Join(out, " ")
}

func main() {
	args := mc.ParseArgs()
	run := mc.NewRun("C13", args.Tier, "fault_enumeration")
	if args.Replay != "" {
		var r Replay
		if err := mc.LoadReplay(args.Replay, &r); err != nil {
			fmt.Fprintln(os.Stderr, err)
			os.Exit(3)
		}
		w := newWorker()
		x := mc.NewExec(r.Choices)
		o := w.run(r.Case, x)
		fmt.Printf("failing hooks: %v\n%s", x.Trace(), o.describe())
		if x.Diverged != "" {
			fmt.Println("HARNESS-ERROR:", x.Diverged)
			os.Exit(3)
		}
		fs := judgeOrdered(o)
		for _, f := range fs {
			fmt.Printf("VIOLATED: %s: %s\n", f.Kind, f.Detail)
		}
		if len(fs) > 0 {
			os.Exit(1)
		}
		fmt.Println("held for this case")
		return
	}

	bound := 1
	budget := 120 * time.Second // only reached on an overloaded machine (normal: 20-40 s)
	if args.Tier == "thorough" {
		bound = 2
		budget = 9 * time.Minute
	}
	deadline := time.Now().Add(budget)
	progs := programs()
	cx := &ctx{run: run, st: &counters{}, distinct: &mc.Set{}, outcomes: &mc.Set{}, failAt: &mc.Set{}, samples: &mc.Samples{N: 8}}
	var capped int32
	var completed [3]int64 // programs whose bound b was completed
	var wg sync.WaitGroup
	var next int64 = -1
	for i := 0; i < 16; i++ {
		wg.Add(1)
		go func() {
			defer wg.Done()
			w := newWorker()
			for {
				n := atomic.AddInt64(&next, 1)
				if int(n) >= len(progs) {
					return
				}
				c := progs[n]
				ex := &mc.Explorer{Bound: bound, Workers: 1, Deadline: deadline}
				ex.Run = func(x *mc.Exec) interface{} { return w.run(c, x) }
				ex.Check = func(x *mc.Exec, obs interface{}) { cx.check(w, c, x, obs.(*Obs)) }
				ex.Explore()
				atomic.AddInt64(&cx.st.programs, 1)
				atomic.AddInt64(&cx.st.diverged, ex.Diverged)
				if ex.Diverged > 0 {
					run.HarnessError("replay divergence in %s: %s", c, ex.FirstDivergence)
				}
				if ex.Capped {
					atomic.StoreInt32(&capped, 1)
				}
				cb := ex.CompletedBound
				if !ex.Capped {
					cb = bound // a tree without (further) choice points is complete for every bound
				}
				for b := 0; b <= cb && b < len(completed); b++ {
					atomic.AddInt64(&completed[b], 1)
				}
				for {
					m := atomic.LoadInt64(&cx.st.maxDepth)
					if ex.MaxDepth <= m || atomic.CompareAndSwapInt64(&cx.st.maxDepth, m, ex.MaxDepth) {
						break
					}
				}
			}
		}()
	}
	wg.Wait()

	st := cx.st
	exhaustive := capped == 0
	boundCompleted := -1
	for b := 0; b <= bound; b++ {
		if completed[b] == int64(len(progs)) {
			boundCompleted = b
		}
	}
	// non-vacuity floors
	if run.NumViolations() == 0 && exhaustive { // a run cut short by its deadline ends with exit 0 and exhaustive:false
		if st.withFailure < 1000 {
			run.HarnessError("vacuous: only %d executions with a failing hook were judged", st.withFailure)
		}
		if st.multiRecord < 500 {
			run.HarnessError("vacuous: only %d executions with hooks on >= 2 records", st.multiRecord)
		}
		if cx.failAt.Len() < 9+8 {
			run.HarnessError("vacuous: failures injected at only %d distinct (table, hook) pairs", cx.failAt.Len())
		}
		if st.noHookVerified < 100 {
			run.HarnessError("vacuous: only %d SkipHooks/UpdateColumn executions verified", st.noHookVerified)
		}
		if st.setColumnChecked < 500 {
			run.HarnessError("vacuous: only %d SetColumn values compared with the stored rows", st.setColumnChecked)
		}
	}
	run.Assume("SQLite dialect (RETURNING on), default transaction mode; SkipDefaultTransaction is outside the alphabet (no transaction of the operation exists then)")
	run.Assume("non-addressable slice/array/struct arguments are outside the alphabet: asserted to be rejected with ErrInvalidValue, without hooks and without changes")
	run.Assume("Save(&T) of a set key whose row is missing: weakest reading - exactly one complete family (update or create) per record, each hook once, values set by the before-hooks (incl. a counter incremented once) are the stored ones; gorm runs it as two pipelines, so up to two default transactions are accepted there")
	run.Assume("where the property does not say whether create or update hooks are applicable (Save of a slice = upsert through the create pipeline; children upserted by a parent's save/update) either family is accepted, one family per record")
	run.Assume("children held by a parent of an update/Save(&existing) may or may not be saved; if any statement or hook of the child table appears, all its records must get their hooks")
	run.Assume("queries have no transaction of their own: AfterFind must see the handle's pool (or the caller's transaction); writes made by a failing AfterFind outside a caller's transaction are not expected to be undone")
	run.Assume("inside a caller's transaction (db.Begin) the harness acts as the caller: it rolls back when the operation returns an error; gorm is not expected to undo partial effects inside a transaction it does not own")
	run.Assume("batched creates (CreateInBatches, Session{CreateBatchSize}.Create): the phases of batch k precede those of batch k+1; the whole call must be one transaction")
	run.Assume("Node graphs (self-referential many2many): records reached through Peers are one phase group (nodes:nested) between the root's statement and the root's after-hooks; nesting levels are not ordered against each other")
	run.Assume("phases of different child tables (has-one vs has-many) are not ordered by the property; Delete with Select(associations) and preloaded children's addresses (temporary values, identified by primary key) are outside the identity check")
	run.Assume("FindInBatches: every batch is read into the same destination, so records are identified by primary key; the batch function must be called exactly for the batches loaded without a hook error; Rows/ScanRows run no hooks in gorm and are not in the alphabet")
	run.Assume("hook receivers are pointer receivers; hooks detect their execution through tx.Logger, the call chain is unchanged")
	cov := map[string]interface{}{
		"evaluations":                         st.executions,
		"distinct_nontrivial":                 cx.distinct.Len(),
		"rule":                                fmt.Sprintf("every program of {create,save(new),save(existing),save(key set, row missing),update,updates(struct),updates(map),delete,find,first} x {&T,&[]T,[]T,[]*T,&[]*T,&[N]T} x len 0..3 x children {none,has-one,has-many(2),both} (by value and by pointer) x {hooks,SkipHooks session,UpdateColumn(s)} x {gorm's own transaction, caller's transaction}; plus CreateInBatches / Session{CreateBatchSize}.Create with (len,size) in {(1,2),(2,2),(3,2),(4,2),(5,2),(4,3),(5,3)}; plus Create/Save of self-referential many2many graphs with shared pointers (chain, triangle, diamond, fan3, cycle, two roots sharing a peer, two roots + triangle; new records with and without preset keys); plus a slice of these programs (len 1-2, &T / &[]T) repeated with three hook bodies that issue 2-4 statements through one derived handle kept in a variable (write, read back, write; Session/WithContext of the handle; Create then Update); plus Create/Save of slices of 2-3 parents whose belongs-to pointers (stored or new Company with hooks) are distinct / shared by two / shared by all; plus the same slice of programs run after a handle derivation on the same handle (SkipHooks / NewDB / NewDB+SkipHooks / NewDB+Context sessions, WithContext, Debug, UpdateColumn - abandoned or used once) and inside a NewDB+SkipHooks session; plus create/save/update/delete/find/first on 18 models that implement only a subset of the hooks (exactly {h} and all-but-h for each of the nine hooks); plus FindInBatches with (rows,size) in {(1,1),(2,1),(3,1),(2,2),(3,2),(3,3)} with and without Preload; each explored by E1 with a choice point at every hook invocation up to %d failing hooks; non-trivial = distinct (program, failing-hook set) executions in which at least one hook invocation was logged and the whole oracle (once per record, order relative to the driver-log statement, pool/transaction identity, error, later phases, rollback / stored values) was evaluated", bound),
		"samples":                             cx.samples.List(),
		"exhaustive":                          exhaustive,
		"programs":                            len(progs),
		"programs_explored":                   st.programs,
		"bound_requested":                     bound,
		"bound_completed":                     boundCompleted,
		"executions_per_bound":                st.perBound[:bound+1],
		"choice_points_total":                 st.points,
		"max_depth":                           st.maxDepth,
		"replay_divergences":                  st.diverged,
		"hook_invocations_observed":           st.hookCalls,
		"executions_with_failing_hook_judged": st.withFailure,
		"executions_failing_phase_continued_for_other_records": st.remainingFired,
		"executions_with_hooks_on_2plus_records":               st.multiRecord,
		"successful_executions_with_hooks_judged":              st.successJudged,
		"setcolumn_values_compared_with_rows":                  st.setColumnChecked,
		"skiphooks_or_updatecolumn_executions_verified":        st.noHookVerified,
		"non_addressable_rejections_verified":                  st.nonAddr,
		"distinct_failing_table_hook_pairs":                    cx.failAt.Len(),
		"distinct_outcomes":                                    cx.outcomes.Len(),
	}
	run.Finish(cov)
}
