package main

import (
	"context"
	"fmt"
	"reflect"
	"strings"
	"unsafe"

	"gorm.io/gorm"
	"gorm.io/gorm/logger"

	"verif/h"
	"verif/mc"
)

// ---------------------------------------------------------------------------
// Models. Every model implements all nine hooks; each hook only calls fire().
// Owner has its children by value, OwnerP by pointer (same table).

type Owner struct {
	ID    uint
	Name  string
	Note  string
	Stamp string // written by BeforeSave through tx.Statement.SetColumn
	Ver   int    // counter: BeforeSave sets it to (in-memory value + 1) through SetColumn
	Mark  string // written by BeforeCreate / BeforeUpdate through SetColumn
	Pet   Pet    `gorm:"foreignKey:OwnerID"`
	Toys  []Toy  `gorm:"foreignKey:OwnerID"`
}

type OwnerP struct {
	ID    uint
	Name  string
	Note  string
	Stamp string
	Mark  string
	Ver   int
	Pet   *Pet   `gorm:"foreignKey:OwnerID"`
	Toys  []*Toy `gorm:"foreignKey:OwnerID"`
}

func (OwnerP) TableName() string { return "owners" }

type Pet struct {
	ID      uint
	OwnerID uint
	Name    string
	Note    string
	Stamp   string
	Mark    string
	Ver     int
}

type Toy struct {
	ID      uint
	OwnerID uint
	Name    string
	Note    string
	Stamp   string
	Mark    string
	Ver     int
}

// Node references itself through a many2many relation: records can be shared
// (reachable over several paths) inside one operation.
type Node struct {
	ID    uint
	Name  string
	Note  string
	Stamp string
	Mark  string
	Ver   int
	Peers []*Node `gorm:"many2many:node_peers"`
}

// Staff belongs to a Company (held by pointer, so that several parents can
// share one Company record); both have all hooks.
type Company struct {
	ID    uint
	Name  string
	Note  string
	Stamp string
	Mark  string
	Ver   int
}

type Staff struct {
	ID        uint
	Name      string
	Note      string
	Stamp     string
	Mark      string
	Ver       int
	CompanyID uint
	Company   *Company
}

// Audit and Stat are written by the hook bodies; they have no hooks.
type Audit struct {
	ID   uint
	Hook string
	Tbl  string
	Name string
}

type Stat struct {
	ID   uint
	Hits int
	Note string
}

const schemaSQL = `
CREATE TABLE companies (id integer primary key autoincrement, name text, note text, stamp text, mark text, ver integer default 0);
CREATE TABLE staffs (id integer primary key autoincrement, name text, note text, stamp text, mark text, ver integer default 0, company_id integer);
CREATE TABLE subs (id integer primary key autoincrement, name text, note text, stamp text, mark text, ver integer default 0);
CREATE TABLE nodes (id integer primary key autoincrement, name text, note text, stamp text, mark text, ver integer default 0);
CREATE TABLE node_peers (node_id integer, peer_id integer, primary key (node_id, peer_id));
CREATE TABLE owners (id integer primary key autoincrement, name text, note text, stamp text, mark text, ver integer default 0);
CREATE TABLE pets (id integer primary key autoincrement, owner_id integer, name text, note text, stamp text, mark text, ver integer default 0);
CREATE TABLE toys (id integer primary key autoincrement, owner_id integer, name text, note text, stamp text, mark text, ver integer default 0);
CREATE TABLE audits (id integer primary key autoincrement, hook text, tbl text, name text);
CREATE TABLE stats (id integer primary key autoincrement, hits integer, note text);
`

const resetSQL = `
DELETE FROM owners; DELETE FROM pets; DELETE FROM toys; DELETE FROM audits; DELETE FROM stats; DELETE FROM nodes; DELETE FROM subs; DELETE FROM staffs; DELETE FROM companies; DELETE FROM node_peers; DELETE FROM sqlite_sequence;
INSERT INTO nodes (id,name,note,stamp,mark) VALUES (1,'n1','n','','');
INSERT INTO subs (id,name,note,stamp,mark) VALUES (1,'o1','n','',''),(2,'o2','n','',''),(3,'o3','n','','');
INSERT INTO companies (id,name,note,stamp,mark) VALUES (1,'c1','n','',''),(2,'c2','n','',''),(3,'c3','n','','');
INSERT INTO staffs (id,name,note,stamp,mark,company_id) VALUES (1,'s1','n','','',1);
INSERT INTO owners (id,name,note,stamp,mark) VALUES (1,'o1','n','',''),(2,'o2','n','',''),(3,'o3','n','','');
INSERT INTO pets (id,owner_id,name,note,stamp,mark) VALUES (1,1,'p1','n','',''),(2,2,'p2','n','',''),(3,3,'p3','n','','');
INSERT INTO toys (id,owner_id,name,note,stamp,mark) VALUES (1,1,'t1','n','',''),(2,1,'t2','n','',''),(3,2,'t3','n','',''),(4,2,'t4','n','',''),(5,3,'t5','n','',''),(6,3,'t6','n','','');
INSERT INTO audits (id,hook,tbl,name) VALUES (1,'seed','seed','seed');
INSERT INTO stats (id,hits,note) VALUES (1,0,'');
`

var allTables = []string{"owners", "pets", "toys", "nodes", "node_peers", "companies", "staffs", "subs", "audits", "stats"}

// tables written by the hook bodies (not by the operation itself)
func isHookTable(t string) bool { return t == "audits" || t == "stats" }

// ---------------------------------------------------------------------------
// Per-execution state, reachable from inside a hook through tx.Logger (the
// Config is copied by every Session, the Logger value is carried along), so
// that the call chain under test is not altered by the harness.

type carrier struct {
	logger.Interface
	cur *execState
}

type hookErr struct {
	N     int
	Label string
}

func (e *hookErr) Error() string {
	return fmt.Sprintf("c13 injected hook error #%d at %s", e.N, e.Label)
}

type hookEv struct {
	Seq       int // number of driver events recorded when the hook was entered
	Table     string
	Addr      uintptr
	ID        uint // primary key of the record when the hook was entered
	Name      string
	Hook      string
	Pool      gorm.ConnPool
	MarkerErr string
	SetCol    string
	SetVal    string
	SetVer    int // BeforeSave: value given to SetColumn("Ver", …); 0 = not set
	Stmts     int // statements the hook body issued
	Incr      int // increments of stats.hits made by the hook body
	Fail      *hookErr
	Ident     string // resolved after the operation
	PTable    string // phase table: Table, or "nodes:nested" for a Node reached through Peers
	Batch     int    // batch of the record's root (batched creates)
}

func (e hookEv) before() bool { return len(e.Hook) > 6 && e.Hook[:6] == "Before" }

// fnCall is one call of the batch function of FindInBatches.
type fnCall struct {
	Batch int
	Seq   int
	Rows  int64
	IDs   []uint
}

type execState struct {
	x    *mc.Exec
	env  *h.Env
	log  []hookEv
	nth  map[string]int
	errs []*hookErr
	fn   []fnCall // FindInBatches: calls of the batch function
	body string   // hook body variant (Case.Body)
	hits int      // increments of stats.hits made so far by the hooks of this execution
}

func stateOf(tx *gorm.DB) *execState {
	if c, ok := tx.Logger.(*carrier); ok {
		return c.cur
	}
	return nil
}

// fire is the body of every hook: log (record, hook, pool), write a marker
// row through tx, set a column from the before-hooks, then ask the explorer
// whether this invocation fails.
func fire(tx *gorm.DB, table string, addr unsafe.Pointer, id uint, name string, ver int, hook string) error {
	st := stateOf(tx)
	if st == nil {
		return nil
	}
	ev := hookEv{Seq: st.env.Rec.Len(), Table: table, Addr: uintptr(addr), ID: id, Name: name, Hook: hook, Pool: tx.Statement.ConnPool}
	bad := func(what string, err error) {
		if err != nil && ev.MarkerErr == "" {
			ev.MarkerErr = what + ": " + err.Error()
		}
	}
	switch st.body {
	case "handle":
		// two writes through ONE derived handle kept in a variable, then both
		// are read back through the same handle (a query leaves its FROM clause
		// on the handle, so the read comes last: reuse after a query is the
		// documented hazard, not the subject here)
		h := tx.Model(&Stat{ID: 1})
		bad("1st write through the derived handle", h.UpdateColumn("hits", gorm.Expr("hits + ?", 1)).Error)
		st.hits++
		bad("2nd write through the derived handle", h.UpdateColumn("note", hook+"/"+name).Error)
		var got Stat
		if err := h.Take(&got).Error; err != nil {
			bad("read back through the derived handle", err)
		} else if got.Hits != st.hits || got.Note != hook+"/"+name {
			bad("read back through the derived handle", fmt.Errorf("hits=%d note=%q, but the hooks of this operation have written hits=%d note=%q", got.Hits, got.Note, st.hits, hook+"/"+name))
		}
		bad("marker create", tx.Create(&Audit{Hook: hook, Tbl: table, Name: name}).Error)
		ev.Stmts, ev.Incr = 4, 1
	case "session":
		// later writes through Session / WithContext of the derived handle
		h := tx.Model(&Stat{ID: 1})
		bad("1st write through the derived handle", h.UpdateColumn("hits", gorm.Expr("hits + ?", 1)).Error)
		bad("2nd write through handle.Session(&Session{})", h.Session(&gorm.Session{}).UpdateColumn("hits", gorm.Expr("hits + ?", 1)).Error)
		bad("3rd write through handle.WithContext", h.WithContext(context.Background()).UpdateColumn("hits", gorm.Expr("hits + ?", 1)).Error)
		st.hits += 3
		bad("marker exec", tx.Exec("INSERT INTO audits (hook,tbl,name) VALUES (?,?,?)", hook, table, name).Error)
		ev.Stmts, ev.Incr = 4, 3
	case "create_update":
		// Create then Update through one derived handle
		a := &Audit{Hook: hook, Tbl: table, Name: "tmp"}
		h := tx.Model(a)
		bad("create through the derived handle", h.Create(a).Error)
		bad("update through the derived handle", h.Update("name", name).Error)
		ev.Stmts = 2
	default:
		bad("exec", tx.Exec("INSERT INTO audits (hook,tbl,name) VALUES (?,?,?)", hook, table, name).Error)
		ev.Stmts = 1
	}
	switch hook {
	case "BeforeSave":
		ev.SetCol, ev.SetVal = "Stamp", "bs:"+name
		ev.SetVer = ver + 1
		tx.Statement.SetColumn("Ver", ev.SetVer)
	case "BeforeCreate":
		ev.SetCol, ev.SetVal = "Mark", "bc:"+name
	case "BeforeUpdate":
		ev.SetCol, ev.SetVal = "Mark", "bu:"+name
	}
	if ev.SetCol != "" {
		tx.Statement.SetColumn(ev.SetCol, ev.SetVal)
	}
	key := table + "." + hook
	n := st.nth[key]
	st.nth[key] = n + 1
	label := fmt.Sprintf("%s#%d", key, n)
	var err error
	if st.x.Choose(2, label, 1) == 1 {
		e := &hookErr{N: len(st.errs), Label: label}
		st.errs = append(st.errs, e)
		ev.Fail = e
		err = e
	}
	st.log = append(st.log, ev)
	return err
}

func (o *Owner) BeforeSave(tx *gorm.DB) error {
	return fire(tx, "owners", unsafe.Pointer(o), o.ID, o.Name, o.Ver, "BeforeSave")
}
func (o *Owner) BeforeCreate(tx *gorm.DB) error {
	return fire(tx, "owners", unsafe.Pointer(o), o.ID, o.Name, o.Ver, "BeforeCreate")
}
func (o *Owner) AfterCreate(tx *gorm.DB) error {
	return fire(tx, "owners", unsafe.Pointer(o), o.ID, o.Name, o.Ver, "AfterCreate")
}
func (o *Owner) BeforeUpdate(tx *gorm.DB) error {
	return fire(tx, "owners", unsafe.Pointer(o), o.ID, o.Name, o.Ver, "BeforeUpdate")
}
func (o *Owner) AfterUpdate(tx *gorm.DB) error {
	return fire(tx, "owners", unsafe.Pointer(o), o.ID, o.Name, o.Ver, "AfterUpdate")
}
func (o *Owner) AfterSave(tx *gorm.DB) error {
	return fire(tx, "owners", unsafe.Pointer(o), o.ID, o.Name, o.Ver, "AfterSave")
}
func (o *Owner) BeforeDelete(tx *gorm.DB) error {
	return fire(tx, "owners", unsafe.Pointer(o), o.ID, o.Name, o.Ver, "BeforeDelete")
}
func (o *Owner) AfterDelete(tx *gorm.DB) error {
	return fire(tx, "owners", unsafe.Pointer(o), o.ID, o.Name, o.Ver, "AfterDelete")
}
func (o *Owner) AfterFind(tx *gorm.DB) error {
	return fire(tx, "owners", unsafe.Pointer(o), o.ID, o.Name, o.Ver, "AfterFind")
}

func (o *OwnerP) BeforeSave(tx *gorm.DB) error {
	return fire(tx, "owners", unsafe.Pointer(o), o.ID, o.Name, o.Ver, "BeforeSave")
}
func (o *OwnerP) BeforeCreate(tx *gorm.DB) error {
	return fire(tx, "owners", unsafe.Pointer(o), o.ID, o.Name, o.Ver, "BeforeCreate")
}
func (o *OwnerP) AfterCreate(tx *gorm.DB) error {
	return fire(tx, "owners", unsafe.Pointer(o), o.ID, o.Name, o.Ver, "AfterCreate")
}
func (o *OwnerP) BeforeUpdate(tx *gorm.DB) error {
	return fire(tx, "owners", unsafe.Pointer(o), o.ID, o.Name, o.Ver, "BeforeUpdate")
}
func (o *OwnerP) AfterUpdate(tx *gorm.DB) error {
	return fire(tx, "owners", unsafe.Pointer(o), o.ID, o.Name, o.Ver, "AfterUpdate")
}
func (o *OwnerP) AfterSave(tx *gorm.DB) error {
	return fire(tx, "owners", unsafe.Pointer(o), o.ID, o.Name, o.Ver, "AfterSave")
}
func (o *OwnerP) BeforeDelete(tx *gorm.DB) error {
	return fire(tx, "owners", unsafe.Pointer(o), o.ID, o.Name, o.Ver, "BeforeDelete")
}
func (o *OwnerP) AfterDelete(tx *gorm.DB) error {
	return fire(tx, "owners", unsafe.Pointer(o), o.ID, o.Name, o.Ver, "AfterDelete")
}
func (o *OwnerP) AfterFind(tx *gorm.DB) error {
	return fire(tx, "owners", unsafe.Pointer(o), o.ID, o.Name, o.Ver, "AfterFind")
}

func (o *Pet) BeforeSave(tx *gorm.DB) error {
	return fire(tx, "pets", unsafe.Pointer(o), o.ID, o.Name, o.Ver, "BeforeSave")
}
func (o *Pet) BeforeCreate(tx *gorm.DB) error {
	return fire(tx, "pets", unsafe.Pointer(o), o.ID, o.Name, o.Ver, "BeforeCreate")
}
func (o *Pet) AfterCreate(tx *gorm.DB) error {
	return fire(tx, "pets", unsafe.Pointer(o), o.ID, o.Name, o.Ver, "AfterCreate")
}
func (o *Pet) BeforeUpdate(tx *gorm.DB) error {
	return fire(tx, "pets", unsafe.Pointer(o), o.ID, o.Name, o.Ver, "BeforeUpdate")
}
func (o *Pet) AfterUpdate(tx *gorm.DB) error {
	return fire(tx, "pets", unsafe.Pointer(o), o.ID, o.Name, o.Ver, "AfterUpdate")
}
func (o *Pet) AfterSave(tx *gorm.DB) error {
	return fire(tx, "pets", unsafe.Pointer(o), o.ID, o.Name, o.Ver, "AfterSave")
}
func (o *Pet) BeforeDelete(tx *gorm.DB) error {
	return fire(tx, "pets", unsafe.Pointer(o), o.ID, o.Name, o.Ver, "BeforeDelete")
}
func (o *Pet) AfterDelete(tx *gorm.DB) error {
	return fire(tx, "pets", unsafe.Pointer(o), o.ID, o.Name, o.Ver, "AfterDelete")
}
func (o *Pet) AfterFind(tx *gorm.DB) error {
	return fire(tx, "pets", unsafe.Pointer(o), o.ID, o.Name, o.Ver, "AfterFind")
}

func (o *Toy) BeforeSave(tx *gorm.DB) error {
	return fire(tx, "toys", unsafe.Pointer(o), o.ID, o.Name, o.Ver, "BeforeSave")
}
func (o *Toy) BeforeCreate(tx *gorm.DB) error {
	return fire(tx, "toys", unsafe.Pointer(o), o.ID, o.Name, o.Ver, "BeforeCreate")
}
func (o *Toy) AfterCreate(tx *gorm.DB) error {
	return fire(tx, "toys", unsafe.Pointer(o), o.ID, o.Name, o.Ver, "AfterCreate")
}
func (o *Toy) BeforeUpdate(tx *gorm.DB) error {
	return fire(tx, "toys", unsafe.Pointer(o), o.ID, o.Name, o.Ver, "BeforeUpdate")
}
func (o *Toy) AfterUpdate(tx *gorm.DB) error {
	return fire(tx, "toys", unsafe.Pointer(o), o.ID, o.Name, o.Ver, "AfterUpdate")
}
func (o *Toy) AfterSave(tx *gorm.DB) error {
	return fire(tx, "toys", unsafe.Pointer(o), o.ID, o.Name, o.Ver, "AfterSave")
}
func (o *Toy) BeforeDelete(tx *gorm.DB) error {
	return fire(tx, "toys", unsafe.Pointer(o), o.ID, o.Name, o.Ver, "BeforeDelete")
}
func (o *Toy) AfterDelete(tx *gorm.DB) error {
	return fire(tx, "toys", unsafe.Pointer(o), o.ID, o.Name, o.Ver, "AfterDelete")
}
func (o *Toy) AfterFind(tx *gorm.DB) error {
	return fire(tx, "toys", unsafe.Pointer(o), o.ID, o.Name, o.Ver, "AfterFind")
}

func (o *Node) BeforeSave(tx *gorm.DB) error {
	return fire(tx, "nodes", unsafe.Pointer(o), o.ID, o.Name, o.Ver, "BeforeSave")
}
func (o *Node) BeforeCreate(tx *gorm.DB) error {
	return fire(tx, "nodes", unsafe.Pointer(o), o.ID, o.Name, o.Ver, "BeforeCreate")
}
func (o *Node) AfterCreate(tx *gorm.DB) error {
	return fire(tx, "nodes", unsafe.Pointer(o), o.ID, o.Name, o.Ver, "AfterCreate")
}
func (o *Node) BeforeUpdate(tx *gorm.DB) error {
	return fire(tx, "nodes", unsafe.Pointer(o), o.ID, o.Name, o.Ver, "BeforeUpdate")
}
func (o *Node) AfterUpdate(tx *gorm.DB) error {
	return fire(tx, "nodes", unsafe.Pointer(o), o.ID, o.Name, o.Ver, "AfterUpdate")
}
func (o *Node) AfterSave(tx *gorm.DB) error {
	return fire(tx, "nodes", unsafe.Pointer(o), o.ID, o.Name, o.Ver, "AfterSave")
}
func (o *Node) BeforeDelete(tx *gorm.DB) error {
	return fire(tx, "nodes", unsafe.Pointer(o), o.ID, o.Name, o.Ver, "BeforeDelete")
}
func (o *Node) AfterDelete(tx *gorm.DB) error {
	return fire(tx, "nodes", unsafe.Pointer(o), o.ID, o.Name, o.Ver, "AfterDelete")
}
func (o *Node) AfterFind(tx *gorm.DB) error {
	return fire(tx, "nodes", unsafe.Pointer(o), o.ID, o.Name, o.Ver, "AfterFind")
}

func (o *Company) BeforeSave(tx *gorm.DB) error {
	return fire(tx, "companies", unsafe.Pointer(o), o.ID, o.Name, o.Ver, "BeforeSave")
}
func (o *Company) BeforeCreate(tx *gorm.DB) error {
	return fire(tx, "companies", unsafe.Pointer(o), o.ID, o.Name, o.Ver, "BeforeCreate")
}
func (o *Company) AfterCreate(tx *gorm.DB) error {
	return fire(tx, "companies", unsafe.Pointer(o), o.ID, o.Name, o.Ver, "AfterCreate")
}
func (o *Company) BeforeUpdate(tx *gorm.DB) error {
	return fire(tx, "companies", unsafe.Pointer(o), o.ID, o.Name, o.Ver, "BeforeUpdate")
}
func (o *Company) AfterUpdate(tx *gorm.DB) error {
	return fire(tx, "companies", unsafe.Pointer(o), o.ID, o.Name, o.Ver, "AfterUpdate")
}
func (o *Company) AfterSave(tx *gorm.DB) error {
	return fire(tx, "companies", unsafe.Pointer(o), o.ID, o.Name, o.Ver, "AfterSave")
}
func (o *Company) BeforeDelete(tx *gorm.DB) error {
	return fire(tx, "companies", unsafe.Pointer(o), o.ID, o.Name, o.Ver, "BeforeDelete")
}
func (o *Company) AfterDelete(tx *gorm.DB) error {
	return fire(tx, "companies", unsafe.Pointer(o), o.ID, o.Name, o.Ver, "AfterDelete")
}
func (o *Company) AfterFind(tx *gorm.DB) error {
	return fire(tx, "companies", unsafe.Pointer(o), o.ID, o.Name, o.Ver, "AfterFind")
}
func (o *Staff) BeforeSave(tx *gorm.DB) error {
	return fire(tx, "staffs", unsafe.Pointer(o), o.ID, o.Name, o.Ver, "BeforeSave")
}
func (o *Staff) BeforeCreate(tx *gorm.DB) error {
	return fire(tx, "staffs", unsafe.Pointer(o), o.ID, o.Name, o.Ver, "BeforeCreate")
}
func (o *Staff) AfterCreate(tx *gorm.DB) error {
	return fire(tx, "staffs", unsafe.Pointer(o), o.ID, o.Name, o.Ver, "AfterCreate")
}
func (o *Staff) BeforeUpdate(tx *gorm.DB) error {
	return fire(tx, "staffs", unsafe.Pointer(o), o.ID, o.Name, o.Ver, "BeforeUpdate")
}
func (o *Staff) AfterUpdate(tx *gorm.DB) error {
	return fire(tx, "staffs", unsafe.Pointer(o), o.ID, o.Name, o.Ver, "AfterUpdate")
}
func (o *Staff) AfterSave(tx *gorm.DB) error {
	return fire(tx, "staffs", unsafe.Pointer(o), o.ID, o.Name, o.Ver, "AfterSave")
}
func (o *Staff) BeforeDelete(tx *gorm.DB) error {
	return fire(tx, "staffs", unsafe.Pointer(o), o.ID, o.Name, o.Ver, "BeforeDelete")
}
func (o *Staff) AfterDelete(tx *gorm.DB) error {
	return fire(tx, "staffs", unsafe.Pointer(o), o.ID, o.Name, o.Ver, "AfterDelete")
}
func (o *Staff) AfterFind(tx *gorm.DB) error {
	return fire(tx, "staffs", unsafe.Pointer(o), o.ID, o.Name, o.Ver, "AfterFind")
}

// ---------------------------------------------------------------------------
// Models that implement only a SUBSET of the hooks: for every hook h a model
// with exactly {h} and one with all hooks but h. The hook methods come from
// zero-size mixin types embedded in front of SubBase (offset 0), so the
// receiver's address is the record's address and SubBase can be read through it.

type SubBase struct {
	ID    uint
	Name  string
	Note  string
	Stamp string
	Mark  string
	Ver   int
}

func (SubBase) TableName() string { return "subs" }

var allHooks = []string{"BeforeSave", "BeforeCreate", "AfterCreate", "BeforeUpdate", "AfterUpdate", "AfterSave", "BeforeDelete", "AfterDelete", "AfterFind"}

type mBeforeSave struct{}

func (m *mBeforeSave) BeforeSave(tx *gorm.DB) error {
	b := (*SubBase)(unsafe.Pointer(m))
	return fire(tx, "subs", unsafe.Pointer(m), b.ID, b.Name, b.Ver, "BeforeSave")
}

type mBeforeCreate struct{}

func (m *mBeforeCreate) BeforeCreate(tx *gorm.DB) error {
	b := (*SubBase)(unsafe.Pointer(m))
	return fire(tx, "subs", unsafe.Pointer(m), b.ID, b.Name, b.Ver, "BeforeCreate")
}

type mAfterCreate struct{}

func (m *mAfterCreate) AfterCreate(tx *gorm.DB) error {
	b := (*SubBase)(unsafe.Pointer(m))
	return fire(tx, "subs", unsafe.Pointer(m), b.ID, b.Name, b.Ver, "AfterCreate")
}

type mBeforeUpdate struct{}

func (m *mBeforeUpdate) BeforeUpdate(tx *gorm.DB) error {
	b := (*SubBase)(unsafe.Pointer(m))
	return fire(tx, "subs", unsafe.Pointer(m), b.ID, b.Name, b.Ver, "BeforeUpdate")
}

type mAfterUpdate struct{}

func (m *mAfterUpdate) AfterUpdate(tx *gorm.DB) error {
	b := (*SubBase)(unsafe.Pointer(m))
	return fire(tx, "subs", unsafe.Pointer(m), b.ID, b.Name, b.Ver, "AfterUpdate")
}

type mAfterSave struct{}

func (m *mAfterSave) AfterSave(tx *gorm.DB) error {
	b := (*SubBase)(unsafe.Pointer(m))
	return fire(tx, "subs", unsafe.Pointer(m), b.ID, b.Name, b.Ver, "AfterSave")
}

type mBeforeDelete struct{}

func (m *mBeforeDelete) BeforeDelete(tx *gorm.DB) error {
	b := (*SubBase)(unsafe.Pointer(m))
	return fire(tx, "subs", unsafe.Pointer(m), b.ID, b.Name, b.Ver, "BeforeDelete")
}

type mAfterDelete struct{}

func (m *mAfterDelete) AfterDelete(tx *gorm.DB) error {
	b := (*SubBase)(unsafe.Pointer(m))
	return fire(tx, "subs", unsafe.Pointer(m), b.ID, b.Name, b.Ver, "AfterDelete")
}

type mAfterFind struct{}

func (m *mAfterFind) AfterFind(tx *gorm.DB) error {
	b := (*SubBase)(unsafe.Pointer(m))
	return fire(tx, "subs", unsafe.Pointer(m), b.ID, b.Name, b.Ver, "AfterFind")
}

type SubOnlyBeforeSave struct {
	mBeforeSave
	SubBase
}

type SubAllButBeforeSave struct {
	mBeforeCreate
	mAfterCreate
	mBeforeUpdate
	mAfterUpdate
	mAfterSave
	mBeforeDelete
	mAfterDelete
	mAfterFind
	SubBase
}

type SubOnlyBeforeCreate struct {
	mBeforeCreate
	SubBase
}

type SubAllButBeforeCreate struct {
	mBeforeSave
	mAfterCreate
	mBeforeUpdate
	mAfterUpdate
	mAfterSave
	mBeforeDelete
	mAfterDelete
	mAfterFind
	SubBase
}

type SubOnlyAfterCreate struct {
	mAfterCreate
	SubBase
}

type SubAllButAfterCreate struct {
	mBeforeSave
	mBeforeCreate
	mBeforeUpdate
	mAfterUpdate
	mAfterSave
	mBeforeDelete
	mAfterDelete
	mAfterFind
	SubBase
}

type SubOnlyBeforeUpdate struct {
	mBeforeUpdate
	SubBase
}

type SubAllButBeforeUpdate struct {
	mBeforeSave
	mBeforeCreate
	mAfterCreate
	mAfterUpdate
	mAfterSave
	mBeforeDelete
	mAfterDelete
	mAfterFind
	SubBase
}

type SubOnlyAfterUpdate struct {
	mAfterUpdate
	SubBase
}

type SubAllButAfterUpdate struct {
	mBeforeSave
	mBeforeCreate
	mAfterCreate
	mBeforeUpdate
	mAfterSave
	mBeforeDelete
	mAfterDelete
	mAfterFind
	SubBase
}

type SubOnlyAfterSave struct {
	mAfterSave
	SubBase
}

type SubAllButAfterSave struct {
	mBeforeSave
	mBeforeCreate
	mAfterCreate
	mBeforeUpdate
	mAfterUpdate
	mBeforeDelete
	mAfterDelete
	mAfterFind
	SubBase
}

type SubOnlyBeforeDelete struct {
	mBeforeDelete
	SubBase
}

type SubAllButBeforeDelete struct {
	mBeforeSave
	mBeforeCreate
	mAfterCreate
	mBeforeUpdate
	mAfterUpdate
	mAfterSave
	mAfterDelete
	mAfterFind
	SubBase
}

type SubOnlyAfterDelete struct {
	mAfterDelete
	SubBase
}

type SubAllButAfterDelete struct {
	mBeforeSave
	mBeforeCreate
	mAfterCreate
	mBeforeUpdate
	mAfterUpdate
	mAfterSave
	mBeforeDelete
	mAfterFind
	SubBase
}

type SubOnlyAfterFind struct {
	mAfterFind
	SubBase
}

type SubAllButAfterFind struct {
	mBeforeSave
	mBeforeCreate
	mAfterCreate
	mBeforeUpdate
	mAfterUpdate
	mAfterSave
	mBeforeDelete
	mAfterDelete
	SubBase
}

// subsetTypes maps "only:<hook>" / "allbut:<hook>" to the model type.
var subsetTypes = map[string]reflect.Type{
	"only:BeforeSave":     reflect.TypeOf(SubOnlyBeforeSave{}),
	"allbut:BeforeSave":   reflect.TypeOf(SubAllButBeforeSave{}),
	"only:BeforeCreate":   reflect.TypeOf(SubOnlyBeforeCreate{}),
	"allbut:BeforeCreate": reflect.TypeOf(SubAllButBeforeCreate{}),
	"only:AfterCreate":    reflect.TypeOf(SubOnlyAfterCreate{}),
	"allbut:AfterCreate":  reflect.TypeOf(SubAllButAfterCreate{}),
	"only:BeforeUpdate":   reflect.TypeOf(SubOnlyBeforeUpdate{}),
	"allbut:BeforeUpdate": reflect.TypeOf(SubAllButBeforeUpdate{}),
	"only:AfterUpdate":    reflect.TypeOf(SubOnlyAfterUpdate{}),
	"allbut:AfterUpdate":  reflect.TypeOf(SubAllButAfterUpdate{}),
	"only:AfterSave":      reflect.TypeOf(SubOnlyAfterSave{}),
	"allbut:AfterSave":    reflect.TypeOf(SubAllButAfterSave{}),
	"only:BeforeDelete":   reflect.TypeOf(SubOnlyBeforeDelete{}),
	"allbut:BeforeDelete": reflect.TypeOf(SubAllButBeforeDelete{}),
	"only:AfterDelete":    reflect.TypeOf(SubOnlyAfterDelete{}),
	"allbut:AfterDelete":  reflect.TypeOf(SubAllButAfterDelete{}),
	"only:AfterFind":      reflect.TypeOf(SubOnlyAfterFind{}),
	"allbut:AfterFind":    reflect.TypeOf(SubAllButAfterFind{}),
}

func init() {
	for k, t := range subsetTypes {
		if f, _ := t.FieldByName("SubBase"); f.Offset != 0 {
			panic("subset model " + k + ": SubBase is not at offset 0")
		}
	}
}

// implemented reports whether the subset model of the case implements hook h.
func implemented(subset, h string) bool {
	switch {
	case subset == "":
		return true
	case strings.HasPrefix(subset, "only:"):
		return subset[5:] == h
	case strings.HasPrefix(subset, "allbut:"):
		return subset[7:] != h
	}
	return true
}
