package main

import (
	"fmt"
	"unsafe"

	"gorm.io/gorm"
	"gorm.io/gorm/logger"

	"verif/h"
	"verif/mc"
)

// ---------------------------------------------------------------------------
// Models. Every model implements all nine hooks; each hook only calls fire().
// Owner has its children by value, OwnerP by pointer (same table).

type Owner struct {
	ID    uint
	Name  string
	Note  string
	Stamp string // written by BeforeSave through tx.Statement.SetColumn
	Mark  string // written by BeforeCreate / BeforeUpdate through SetColumn
	Pet   Pet    `gorm:"foreignKey:OwnerID"`
	Toys  []Toy  `gorm:"foreignKey:OwnerID"`
}

type OwnerP struct {
	ID    uint
	Name  string
	Note  string
	Stamp string
	Mark  string
	Pet   *Pet   `gorm:"foreignKey:OwnerID"`
	Toys  []*Toy `gorm:"foreignKey:OwnerID"`
}

func (OwnerP) TableName() string { return "owners" }

type Pet struct {
	ID      uint
	OwnerID uint
	Name    string
	Note    string
	Stamp   string
	Mark    string
}

type Toy struct {
	ID      uint
	OwnerID uint
	Name    string
	Note    string
	Stamp   string
	Mark    string
}

// Node references itself through a many2many relation: records can be shared
// (reachable over several paths) inside one operation.
type Node struct {
	ID    uint
	Name  string
	Note  string
	Stamp string
	Mark  string
	Peers []*Node `gorm:"many2many:node_peers"`
}

const schemaSQL = `
CREATE TABLE nodes (id integer primary key autoincrement, name text, note text, stamp text, mark text);
CREATE TABLE node_peers (node_id integer, peer_id integer, primary key (node_id, peer_id));
CREATE TABLE owners (id integer primary key autoincrement, name text, note text, stamp text, mark text);
CREATE TABLE pets (id integer primary key autoincrement, owner_id integer, name text, note text, stamp text, mark text);
CREATE TABLE toys (id integer primary key autoincrement, owner_id integer, name text, note text, stamp text, mark text);
CREATE TABLE audits (id integer primary key autoincrement, hook text, tbl text, name text);
`

const resetSQL = `
DELETE FROM owners; DELETE FROM pets; DELETE FROM toys; DELETE FROM audits; DELETE FROM nodes; DELETE FROM node_peers; DELETE FROM sqlite_sequence;
INSERT INTO nodes (id,name,note,stamp,mark) VALUES (1,'n1','n','','');
INSERT INTO owners (id,name,note,stamp,mark) VALUES (1,'o1','n','',''),(2,'o2','n','',''),(3,'o3','n','','');
INSERT INTO pets (id,owner_id,name,note,stamp,mark) VALUES (1,1,'p1','n','',''),(2,2,'p2','n','',''),(3,3,'p3','n','','');
INSERT INTO toys (id,owner_id,name,note,stamp,mark) VALUES (1,1,'t1','n','',''),(2,1,'t2','n','',''),(3,2,'t3','n','',''),(4,2,'t4','n','',''),(5,3,'t5','n','',''),(6,3,'t6','n','','');
INSERT INTO audits (id,hook,tbl,name) VALUES (1,'seed','seed','seed');
`

var allTables = []string{"owners", "pets", "toys", "nodes", "node_peers", "audits"}

// ---------------------------------------------------------------------------
// Per-execution state, reachable from inside a hook through tx.Logger (the
// Config is copied by every Session, the Logger value is carried along), so
// that the call chain under test is not altered by the harness.

type carrier struct {
	logger.Interface
	cur *execState
}

type hookErr struct {
	N     int
	Label string
}

func (e *hookErr) Error() string {
	return fmt.Sprintf("c13 injected hook error #%d at %s", e.N, e.Label)
}

type hookEv struct {
	Seq       int // number of driver events recorded when the hook was entered
	Table     string
	Addr      uintptr
	ID        uint // primary key of the record when the hook was entered
	Name      string
	Hook      string
	Pool      gorm.ConnPool
	MarkerErr string
	SetCol    string
	SetVal    string
	Fail      *hookErr
	Ident     string // resolved after the operation
	PTable    string // phase table: Table, or "nodes:nested" for a Node reached through Peers
	Batch     int    // batch of the record's root (batched creates)
}

func (e hookEv) before() bool { return len(e.Hook) > 6 && e.Hook[:6] == "Before" }

type execState struct {
	x    *mc.Exec
	env  *h.Env
	log  []hookEv
	nth  map[string]int
	errs []*hookErr
}

func stateOf(tx *gorm.DB) *execState {
	if c, ok := tx.Logger.(*carrier); ok {
		return c.cur
	}
	return nil
}

// fire is the body of every hook: log (record, hook, pool), write a marker
// row through tx, set a column from the before-hooks, then ask the explorer
// whether this invocation fails.
func fire(tx *gorm.DB, table string, addr unsafe.Pointer, id uint, name string, hook string) error {
	st := stateOf(tx)
	if st == nil {
		return nil
	}
	ev := hookEv{Seq: st.env.Rec.Len(), Table: table, Addr: uintptr(addr), ID: id, Name: name, Hook: hook, Pool: tx.Statement.ConnPool}
	if r := tx.Exec("INSERT INTO audits (hook,tbl,name) VALUES (?,?,?)", hook, table, name); r.Error != nil {
		ev.MarkerErr = r.Error.Error()
	}
	switch hook {
	case "BeforeSave":
		ev.SetCol, ev.SetVal = "Stamp", "bs:"+name
	case "BeforeCreate":
		ev.SetCol, ev.SetVal = "Mark", "bc:"+name
	case "BeforeUpdate":
		ev.SetCol, ev.SetVal = "Mark", "bu:"+name
	}
	if ev.SetCol != "" {
		tx.Statement.SetColumn(ev.SetCol, ev.SetVal)
	}
	key := table + "." + hook
	n := st.nth[key]
	st.nth[key] = n + 1
	label := fmt.Sprintf("%s#%d", key, n)
	var err error
	if st.x.Choose(2, label, 1) == 1 {
		e := &hookErr{N: len(st.errs), Label: label}
		st.errs = append(st.errs, e)
		ev.Fail = e
		err = e
	}
	st.log = append(st.log, ev)
	return err
}

func (o *Owner) BeforeSave(tx *gorm.DB) error {
	return fire(tx, "owners", unsafe.Pointer(o), o.ID, o.Name, "BeforeSave")
}
func (o *Owner) BeforeCreate(tx *gorm.DB) error {
	return fire(tx, "owners", unsafe.Pointer(o), o.ID, o.Name, "BeforeCreate")
}
func (o *Owner) AfterCreate(tx *gorm.DB) error {
	return fire(tx, "owners", unsafe.Pointer(o), o.ID, o.Name, "AfterCreate")
}
func (o *Owner) BeforeUpdate(tx *gorm.DB) error {
	return fire(tx, "owners", unsafe.Pointer(o), o.ID, o.Name, "BeforeUpdate")
}
func (o *Owner) AfterUpdate(tx *gorm.DB) error {
	return fire(tx, "owners", unsafe.Pointer(o), o.ID, o.Name, "AfterUpdate")
}
func (o *Owner) AfterSave(tx *gorm.DB) error {
	return fire(tx, "owners", unsafe.Pointer(o), o.ID, o.Name, "AfterSave")
}
func (o *Owner) BeforeDelete(tx *gorm.DB) error {
	return fire(tx, "owners", unsafe.Pointer(o), o.ID, o.Name, "BeforeDelete")
}
func (o *Owner) AfterDelete(tx *gorm.DB) error {
	return fire(tx, "owners", unsafe.Pointer(o), o.ID, o.Name, "AfterDelete")
}
func (o *Owner) AfterFind(tx *gorm.DB) error {
	return fire(tx, "owners", unsafe.Pointer(o), o.ID, o.Name, "AfterFind")
}

func (o *OwnerP) BeforeSave(tx *gorm.DB) error {
	return fire(tx, "owners", unsafe.Pointer(o), o.ID, o.Name, "BeforeSave")
}
func (o *OwnerP) BeforeCreate(tx *gorm.DB) error {
	return fire(tx, "owners", unsafe.Pointer(o), o.ID, o.Name, "BeforeCreate")
}
func (o *OwnerP) AfterCreate(tx *gorm.DB) error {
	return fire(tx, "owners", unsafe.Pointer(o), o.ID, o.Name, "AfterCreate")
}
func (o *OwnerP) BeforeUpdate(tx *gorm.DB) error {
	return fire(tx, "owners", unsafe.Pointer(o), o.ID, o.Name, "BeforeUpdate")
}
func (o *OwnerP) AfterUpdate(tx *gorm.DB) error {
	return fire(tx, "owners", unsafe.Pointer(o), o.ID, o.Name, "AfterUpdate")
}
func (o *OwnerP) AfterSave(tx *gorm.DB) error {
	return fire(tx, "owners", unsafe.Pointer(o), o.ID, o.Name, "AfterSave")
}
func (o *OwnerP) BeforeDelete(tx *gorm.DB) error {
	return fire(tx, "owners", unsafe.Pointer(o), o.ID, o.Name, "BeforeDelete")
}
func (o *OwnerP) AfterDelete(tx *gorm.DB) error {
	return fire(tx, "owners", unsafe.Pointer(o), o.ID, o.Name, "AfterDelete")
}
func (o *OwnerP) AfterFind(tx *gorm.DB) error {
	return fire(tx, "owners", unsafe.Pointer(o), o.ID, o.Name, "AfterFind")
}

func (o *Pet) BeforeSave(tx *gorm.DB) error {
	return fire(tx, "pets", unsafe.Pointer(o), o.ID, o.Name, "BeforeSave")
}
func (o *Pet) BeforeCreate(tx *gorm.DB) error {
	return fire(tx, "pets", unsafe.Pointer(o), o.ID, o.Name, "BeforeCreate")
}
func (o *Pet) AfterCreate(tx *gorm.DB) error {
	return fire(tx, "pets", unsafe.Pointer(o), o.ID, o.Name, "AfterCreate")
}
func (o *Pet) BeforeUpdate(tx *gorm.DB) error {
	return fire(tx, "pets", unsafe.Pointer(o), o.ID, o.Name, "BeforeUpdate")
}
func (o *Pet) AfterUpdate(tx *gorm.DB) error {
	return fire(tx, "pets", unsafe.Pointer(o), o.ID, o.Name, "AfterUpdate")
}
func (o *Pet) AfterSave(tx *gorm.DB) error {
	return fire(tx, "pets", unsafe.Pointer(o), o.ID, o.Name, "AfterSave")
}
func (o *Pet) BeforeDelete(tx *gorm.DB) error {
	return fire(tx, "pets", unsafe.Pointer(o), o.ID, o.Name, "BeforeDelete")
}
func (o *Pet) AfterDelete(tx *gorm.DB) error {
	return fire(tx, "pets", unsafe.Pointer(o), o.ID, o.Name, "AfterDelete")
}
func (o *Pet) AfterFind(tx *gorm.DB) error {
	return fire(tx, "pets", unsafe.Pointer(o), o.ID, o.Name, "AfterFind")
}

func (o *Toy) BeforeSave(tx *gorm.DB) error {
	return fire(tx, "toys", unsafe.Pointer(o), o.ID, o.Name, "BeforeSave")
}
func (o *Toy) BeforeCreate(tx *gorm.DB) error {
	return fire(tx, "toys", unsafe.Pointer(o), o.ID, o.Name, "BeforeCreate")
}
func (o *Toy) AfterCreate(tx *gorm.DB) error {
	return fire(tx, "toys", unsafe.Pointer(o), o.ID, o.Name, "AfterCreate")
}
func (o *Toy) BeforeUpdate(tx *gorm.DB) error {
	return fire(tx, "toys", unsafe.Pointer(o), o.ID, o.Name, "BeforeUpdate")
}
func (o *Toy) AfterUpdate(tx *gorm.DB) error {
	return fire(tx, "toys", unsafe.Pointer(o), o.ID, o.Name, "AfterUpdate")
}
func (o *Toy) AfterSave(tx *gorm.DB) error {
	return fire(tx, "toys", unsafe.Pointer(o), o.ID, o.Name, "AfterSave")
}
func (o *Toy) BeforeDelete(tx *gorm.DB) error {
	return fire(tx, "toys", unsafe.Pointer(o), o.ID, o.Name, "BeforeDelete")
}
func (o *Toy) AfterDelete(tx *gorm.DB) error {
	return fire(tx, "toys", unsafe.Pointer(o), o.ID, o.Name, "AfterDelete")
}
func (o *Toy) AfterFind(tx *gorm.DB) error {
	return fire(tx, "toys", unsafe.Pointer(o), o.ID, o.Name, "AfterFind")
}

func (o *Node) BeforeSave(tx *gorm.DB) error {
	return fire(tx, "nodes", unsafe.Pointer(o), o.ID, o.Name, "BeforeSave")
}
func (o *Node) BeforeCreate(tx *gorm.DB) error {
	return fire(tx, "nodes", unsafe.Pointer(o), o.ID, o.Name, "BeforeCreate")
}
func (o *Node) AfterCreate(tx *gorm.DB) error {
	return fire(tx, "nodes", unsafe.Pointer(o), o.ID, o.Name, "AfterCreate")
}
func (o *Node) BeforeUpdate(tx *gorm.DB) error {
	return fire(tx, "nodes", unsafe.Pointer(o), o.ID, o.Name, "BeforeUpdate")
}
func (o *Node) AfterUpdate(tx *gorm.DB) error {
	return fire(tx, "nodes", unsafe.Pointer(o), o.ID, o.Name, "AfterUpdate")
}
func (o *Node) AfterSave(tx *gorm.DB) error {
	return fire(tx, "nodes", unsafe.Pointer(o), o.ID, o.Name, "AfterSave")
}
func (o *Node) BeforeDelete(tx *gorm.DB) error {
	return fire(tx, "nodes", unsafe.Pointer(o), o.ID, o.Name, "BeforeDelete")
}
func (o *Node) AfterDelete(tx *gorm.DB) error {
	return fire(tx, "nodes", unsafe.Pointer(o), o.ID, o.Name, "AfterDelete")
}
func (o *Node) AfterFind(tx *gorm.DB) error {
	return fire(tx, "nodes", unsafe.Pointer(o), o.ID, o.Name, "AfterFind")
}
