package main

import (
	"context"
	"fmt"
	"reflect"
	"sort"
	"strings"

	"gorm.io/gorm"
	"gorm.io/gorm/logger"

	"verif/drivers/recsqlite"
	"verif/h"
	"verif/mc"
)

// Case is one program of the alphabet (also part of the replay format).
type Case struct {
	Op      string `json:"op"`                // create save_new save_existing update updates_struct updates_map delete find first
	Shape   string `json:"shape"`             // ptr_struct ptr_slice slice_val slice_ptr ptr_slice_ptr ptr_array | val_struct val_array (non-addressable)
	Len     int    `json:"len"`               // number of in-memory records (find/first: number of rows matched)
	Kids    string `json:"kids"`              // none pet toys both (find/first: both = Preload Pet and Toys)
	PtrKids bool   `json:"ptr_kids"`          // root type OwnerP (children held by pointer)
	Mode    string `json:"mode"`              // hooks skiphooks column
	Outer   string `json:"outer"`             // implicit (gorm's default transaction) | begin (caller's transaction)
	Batch   int    `json:"batch,omitempty"`   // batch size of create_batches (CreateInBatches) / create_batchsize (Session{CreateBatchSize}.Create)
	Graph   string `json:"graph,omitempty"`   // Node graph with shared records (root type Node): chain triangle diamond fan3 two_roots cycle
	Body    string `json:"body,omitempty"`    // hook body: "" (one Exec through tx) | handle | session | create_update (several statements through one derived handle)
	Belongs string `json:"belongs,omitempty"` // root type Staff: how the parents' belongs-to Company pointers are shared: distinct shared2 shared_all
	Subset  string `json:"subset,omitempty"`  // model implementing a subset of the hooks: only:<hook> | allbut:<hook>
	Prelude string `json:"prelude,omitempty"` // handle derivations made (and abandoned / used once) on the same handle before the operation
	Preset  bool   `json:"preset,omitempty"`  // graph records carry preset (new) primary keys
}

// Replay is the replay file: the program plus the choice list (which hook
// invocations return an error).
type Replay struct {
	Case     Case     `json:"case"`
	Choices  []int    `json:"choices"`
	Trace    []string `json:"trace,omitempty"`
	Readable string   `json:"readable,omitempty"`
}

func (c Case) String() string {
	t := "Owner"
	if c.PtrKids {
		t = "OwnerP"
	}
	if c.Graph != "" {
		t = "Node"
	}
	if c.Belongs != "" {
		t = "Staff"
	}
	if c.Subset != "" {
		t = "Sub"
	}
	s := fmt.Sprintf("%s %s<%s> len=%d kids=%s mode=%s outer=%s", c.Op, c.Shape, t, c.Len, c.Kids, c.Mode, c.Outer)
	if c.Batch > 0 {
		s += fmt.Sprintf(" batch=%d", c.Batch)
	}
	if c.Graph != "" {
		s += fmt.Sprintf(" graph=%s preset_ids=%v", c.Graph, c.Preset)
	}
	if c.Body != "" {
		s += " hookbody=" + c.Body
	}
	if c.Belongs != "" {
		s += fmt.Sprintf(" belongs_to=%s company_stored=%v", c.Belongs, c.Preset)
	}
	if c.Prelude != "" {
		s += " prelude=" + c.Prelude
	}
	if c.Subset != "" {
		s += " hooks_implemented=" + c.Subset
	}
	return s
}

func (c Case) isCreate() bool {
	return c.Op == "create" || c.Op == "save_new" || c.Op == "create_batches" || c.Op == "create_batchsize"
}

// rootTable is the table of the argument's records.
func (c Case) rootTable() string {
	if c.Graph != "" {
		return "nodes"
	}
	if c.Belongs != "" {
		return "staffs"
	}
	if c.Subset != "" {
		return "subs"
	}
	return "owners"
}

func (c Case) key() string { return c.String() }

func (c Case) isWrite() bool { return c.Op != "find" && c.Op != "first" && c.Op != "find_batches" }
func (c Case) isUpdate() bool {
	return c.Op == "update" || c.Op == "updates_struct" || c.Op == "updates_map"
}
func (c Case) nonAddressable() bool {
	return c.Shape == "val_struct" || c.Shape == "val_array"
}

var (
	tOwner  = reflect.TypeOf(Owner{})
	tOwnerP = reflect.TypeOf(OwnerP{})
)

func (c Case) rootT() reflect.Type {
	if c.Subset != "" {
		t, ok := subsetTypes[c.Subset]
		if !ok {
			panic("unknown subset " + c.Subset)
		}
		return t
	}
	if c.PtrKids {
		return tOwnerP
	}
	return tOwner
}

// fillRoot initialises the i-th in-memory record for the operation.
func fillRoot(c Case, rv reflect.Value, i int) {
	set := func(id uint, name, note string) {
		rv.FieldByName("ID").SetUint(uint64(id))
		rv.FieldByName("Name").SetString(name)
		rv.FieldByName("Note").SetString(note)
	}
	existingKids := false
	switch c.Op {
	case "create", "save_new", "create_batches", "create_batchsize":
		set(0, fmt.Sprintf("r%d", i), "c")
	case "save_existing":
		set(uint(i+1), fmt.Sprintf("r%d", i), "s")
		existingKids = true
	case "save_missing": // primary key set, but there is no such row
		set(uint(50+i), fmt.Sprintf("r%d", i), "s")
	case "update", "updates_struct", "updates_map":
		// all records carry the same name: one UPDATE statement serves all of
		// them, so a per-record SetColumn value cannot be stored per record
		set(uint(i+1), "m", "")
	case "delete":
		set(uint(i+1), fmt.Sprintf("r%d", i), "")
	default: // find / first: empty destination
		return
	}
	if c.Kids == "pet" || c.Kids == "both" {
		p := Pet{Name: fmt.Sprintf("r%d.pet", i), Note: "k"}
		if existingKids {
			p.ID, p.OwnerID = uint(i+1), uint(i+1)
		}
		if c.PtrKids {
			rv.FieldByName("Pet").Set(reflect.ValueOf(&p))
		} else {
			rv.FieldByName("Pet").Set(reflect.ValueOf(p))
		}
	}
	if c.Kids == "toys" || c.Kids == "both" {
		var toys []Toy
		for j := 0; j < 2; j++ {
			t := Toy{Name: fmt.Sprintf("r%d.toy%d", i, j), Note: "k"}
			if existingKids {
				t.ID, t.OwnerID = uint(2*i+j+1), uint(i+1)
			}
			toys = append(toys, t)
		}
		if c.PtrKids {
			var pt []*Toy
			for j := range toys {
				pt = append(pt, &toys[j])
			}
			rv.FieldByName("Toys").Set(reflect.ValueOf(pt))
		} else {
			rv.FieldByName("Toys").Set(reflect.ValueOf(toys))
		}
	}
}

// buildArg builds the argument value of the given shape.
func buildArg(c Case) interface{} {
	if c.Graph != "" {
		return buildGraph(c)
	}
	if c.Belongs != "" {
		return buildStaff(c)
	}
	T := c.rootT()
	n := c.Len
	isFind := !c.isWrite()
	switch c.Shape {
	case "ptr_struct":
		p := reflect.New(T)
		fillRoot(c, p.Elem(), 0)
		return p.Interface()
	case "val_struct":
		p := reflect.New(T)
		fillRoot(c, p.Elem(), 0)
		return p.Elem().Interface()
	case "ptr_slice", "slice_val":
		s := reflect.New(reflect.SliceOf(T))
		if !isFind {
			s.Elem().Set(reflect.MakeSlice(reflect.SliceOf(T), n, n))
			for i := 0; i < n; i++ {
				fillRoot(c, s.Elem().Index(i), i)
			}
		}
		if c.Shape == "slice_val" {
			return s.Elem().Interface()
		}
		return s.Interface()
	case "slice_ptr", "ptr_slice_ptr":
		s := reflect.New(reflect.SliceOf(reflect.PtrTo(T)))
		if !isFind {
			s.Elem().Set(reflect.MakeSlice(reflect.SliceOf(reflect.PtrTo(T)), n, n))
			for i := 0; i < n; i++ {
				e := reflect.New(T)
				fillRoot(c, e.Elem(), i)
				s.Elem().Index(i).Set(e)
			}
		}
		if c.Shape == "slice_ptr" {
			return s.Elem().Interface()
		}
		return s.Interface()
	case "ptr_array", "val_array":
		a := reflect.New(reflect.ArrayOf(n, T))
		if !isFind {
			for i := 0; i < n; i++ {
				fillRoot(c, a.Elem().Index(i), i)
			}
		}
		if c.Shape == "val_array" {
			return a.Elem().Interface()
		}
		return a.Interface()
	}
	panic("unknown shape " + c.Shape)
}

// buildGraph builds a Node graph in which records are shared (the same
// pointer is reachable over several paths).
func buildGraph(c Case) interface{} {
	next := uint(101)
	mk := func(name string) *Node {
		n := &Node{Name: name, Note: "g"}
		if c.Preset {
			n.ID = next
			next++
		}
		return n
	}
	root, a, b, x := mk("root"), mk("a"), mk("b"), mk("x")
	switch c.Graph {
	case "chain": // no sharing: baseline
		root.Peers = []*Node{a}
		a.Peers = []*Node{x}
	case "triangle":
		root.Peers = []*Node{a, b}
		a.Peers = []*Node{b}
	case "diamond":
		root.Peers = []*Node{a, b}
		a.Peers = []*Node{x}
		b.Peers = []*Node{x}
	case "fan3":
		root.Peers = []*Node{a, b, x}
		a.Peers = []*Node{x}
		b.Peers = []*Node{x}
	case "cycle":
		root.Peers = []*Node{a}
		a.Peers = []*Node{root}
	case "two_roots":
		r1 := mk("root1")
		root.Peers = []*Node{x}
		r1.Peers = []*Node{x}
		s := []*Node{root, r1}
		return &s
	case "two_roots_tri":
		r1 := mk("root1")
		root.Peers = []*Node{a, x}
		r1.Peers = []*Node{x}
		a.Peers = []*Node{x}
		s := []*Node{root, r1}
		return &s
	default:
		panic("unknown graph " + c.Graph)
	}
	return root
}

// buildStaff builds a slice of Staff whose belongs-to Company pointers are
// distinct or shared; Preset = the companies are stored rows (key set).
func buildStaff(c Case) interface{} {
	n := c.Len
	cos := make([]*Company, n)
	for i := range cos {
		if c.Preset {
			cos[i] = &Company{ID: uint(i + 1), Name: fmt.Sprintf("c%d", i+1), Note: "n"}
		} else {
			cos[i] = &Company{Name: fmt.Sprintf("cn%d", i), Note: "b"}
		}
	}
	pick := func(i int) *Company {
		switch c.Belongs {
		case "shared_all":
			return cos[0]
		case "shared2": // first and last share, the ones in between have their own
			if i == 0 || i == n-1 {
				return cos[0]
			}
		}
		return cos[i]
	}
	vals := make([]Staff, n)
	ptrs := make([]*Staff, n)
	for i := 0; i < n; i++ {
		vals[i] = Staff{Name: fmt.Sprintf("r%d", i), Note: "c", Company: pick(i)}
		ptrs[i] = &vals[i]
	}
	switch c.Shape {
	case "ptr_slice":
		return &vals
	case "slice_val":
		return vals
	case "slice_ptr":
		return ptrs
	case "ptr_slice_ptr":
		return &ptrs
	}
	panic("unsupported shape for Staff: " + c.Shape)
}

func walkStaff(staff []*Staff) (recs []record) {
	seen := map[*Company]bool{}
	for i, s := range staff {
		if s == nil {
			continue
		}
		recs = append(recs, record{Ident: fmt.Sprintf("[%d]", i), Table: "staffs", Addr: reflect.ValueOf(s).Pointer(), ID: s.ID, Name: s.Name, Root: i})
		if co := s.Company; co != nil && !seen[co] {
			seen[co] = true
			recs = append(recs, record{Ident: "company:" + co.Name, Table: "companies", Addr: reflect.ValueOf(co).Pointer(), ID: co.ID, Name: co.Name, Root: i})
		}
	}
	return
}

// walkNodes lists the records and edges of a Node graph.
func walkNodes(arg interface{}) (recs []record, edges [][2]*Node) {
	var roots []*Node
	switch v := arg.(type) {
	case *Node:
		roots = []*Node{v}
	case *[]*Node:
		roots = *v
	}
	seen := map[*Node]bool{}
	var visit func(n *Node, root int)
	visit = func(n *Node, root int) {
		if n == nil || seen[n] {
			return
		}
		seen[n] = true
		recs = append(recs, record{Ident: "node:" + n.Name, Table: "nodes", PTable: "nodes:nested", Addr: reflect.ValueOf(n).Pointer(), ID: n.ID, Name: n.Name, Root: root})
		for _, p := range n.Peers {
			edges = append(edges, [2]*Node{n, p})
		}
		for _, p := range n.Peers {
			visit(p, root)
		}
	}
	// roots first, so that a root that is also somebody's peer keeps its root identity
	for i, r := range roots {
		if r != nil && !seen[r] {
			seen[r] = true
			recs = append(recs, record{Ident: fmt.Sprintf("[%d]", i), Table: "nodes", PTable: "nodes", Addr: reflect.ValueOf(r).Pointer(), ID: r.ID, Name: r.Name, Root: i})
		}
	}
	for i, r := range roots {
		if r == nil {
			continue
		}
		for _, p := range r.Peers {
			edges = append(edges, [2]*Node{r, p})
		}
		for _, p := range r.Peers {
			visit(p, i)
		}
	}
	return
}

// record is one in-memory record of the argument (root or child).
type record struct {
	Ident  string // "[i]", "[i].Pet", "[i].Toys[j]"
	Table  string
	Addr   uintptr
	ID     uint
	Name   string
	Root   int
	PTable string // phase table (see hookEv.PTable); "" = Table
}

func (r record) ptable() string {
	if r.PTable != "" {
		return r.PTable
	}
	return r.Table
}

// walkArg lists the in-memory records reachable from the argument.
func walkArg(arg interface{}) (recs []record) {
	switch v := arg.(type) {
	case *Node, *[]*Node:
		recs, _ = walkNodes(arg)
		return
	case []*Staff:
		return walkStaff(v)
	case *[]*Staff:
		return walkStaff(*v)
	case []Staff:
		p := make([]*Staff, len(v))
		for i := range v {
			p[i] = &v[i]
		}
		return walkStaff(p)
	case *[]Staff:
		p := make([]*Staff, len(*v))
		for i := range *v {
			p[i] = &(*v)[i]
		}
		return walkStaff(p)
	}
	rv := reflect.ValueOf(arg)
	for rv.Kind() == reflect.Ptr {
		if rv.IsNil() {
			return
		}
		rv = rv.Elem()
	}
	addRoot := func(i int, v reflect.Value) {
		for v.Kind() == reflect.Ptr {
			if v.IsNil() {
				return
			}
			v = v.Elem()
		}
		if v.Kind() != reflect.Struct {
			return
		}
		var addr uintptr
		if v.CanAddr() {
			addr = v.Addr().Pointer()
		}
		id := fmt.Sprintf("[%d]", i)
		table := "owners"
		if v.FieldByName("SubBase").IsValid() {
			table = "subs"
		}
		recs = append(recs, record{Ident: id, Table: table, Addr: addr, ID: uint(v.FieldByName("ID").Uint()), Name: v.FieldByName("Name").String(), Root: i})
		child := func(cid, table string, cv reflect.Value) {
			for cv.Kind() == reflect.Ptr {
				if cv.IsNil() {
					return
				}
				cv = cv.Elem()
			}
			if cv.IsZero() {
				return
			}
			var a uintptr
			if cv.CanAddr() {
				a = cv.Addr().Pointer()
			}
			recs = append(recs, record{Ident: cid, Table: table, Addr: a, ID: uint(cv.FieldByName("ID").Uint()), Name: cv.FieldByName("Name").String(), Root: i})
		}
		if table != "owners" {
			return
		}
		child(id+".Pet", "pets", v.FieldByName("Pet"))
		toys := v.FieldByName("Toys")
		for j := 0; j < toys.Len(); j++ {
			child(fmt.Sprintf("%s.Toys[%d]", id, j), "toys", toys.Index(j))
		}
	}
	switch rv.Kind() {
	case reflect.Struct:
		addRoot(0, rv)
	case reflect.Slice, reflect.Array:
		for i := 0; i < rv.Len(); i++ {
			addRoot(i, rv.Index(i))
		}
	}
	return
}

// Obs is everything observed in one execution.
type Obs struct {
	Case      Case
	Err       error
	Panic     string
	Log       []hookEv
	Errs      []*hookErr
	Events    []recsqlite.Event
	Pre, Post map[string][]string
	Leaks     string
	Before    []record   // in-memory records before the operation
	After     []record   // … and after it
	FnCalls   []fnCall   // FindInBatches
	Edges     [][2]*Node // Node graphs: (from, to) after the operation
	DBPool    gorm.ConnPool
	OuterPool gorm.ConnPool
	Rows      int64
}

type worker struct {
	env *h.Env
	car *carrier
}

func newWorker() *worker {
	w := &worker{}
	w.fresh()
	return w
}

func (w *worker) fresh() {
	if w.env != nil {
		w.env.Close()
	}
	w.car = &carrier{Interface: logger.Discard}
	w.env = h.Open(&gorm.Config{Logger: w.car})
	for _, s := range strings.Split(schemaSQL, ";") {
		if strings.TrimSpace(s) != "" {
			w.env.MustExec(s)
		}
	}
}

func snapshot(e *h.Env) map[string][]string {
	m := map[string][]string{}
	for _, t := range allTables {
		m[t] = e.DumpTable(t)
	}
	return m
}

func snapEqual(a, b map[string][]string, tables ...string) bool {
	for _, t := range tables {
		if strings.Join(a[t], "\n") != strings.Join(b[t], "\n") {
			return false
		}
	}
	return true
}

func snapString(a map[string][]string) string {
	var sb strings.Builder
	for _, t := range allTables {
		sb.WriteString("## " + t + "\n")
		for _, r := range a[t] {
			sb.WriteString("  " + r + "\n")
		}
	}
	return sb.String()
}

// parseRow turns a canonical dump row ("col=val|col=val") into a map; string
// cells lose their quotes.
func parseRow(r string) map[string]string {
	m := map[string]string{}
	for _, kv := range strings.Split(r, "|") {
		p := strings.SplitN(kv, "=", 2)
		if len(p) != 2 {
			continue
		}
		v := p[1]
		if len(v) >= 2 && v[0] == '"' && v[len(v)-1] == '"' {
			v = v[1 : len(v)-1]
		}
		m[p[0]] = v
	}
	return m
}

func rowByID(snap map[string][]string, table string, id uint) map[string]string {
	want := fmt.Sprint(id)
	for _, r := range snap[table] {
		m := parseRow(r)
		if m["id"] == want {
			return m
		}
	}
	return nil
}

// run executes one program under the explorer's choice list.
func (w *worker) run(c Case, x *mc.Exec) *Obs {
	if l := w.env.Leaks(); l != "" || w.env.DB.Statement.SkipHooks {
		// (a handle poisoned by an earlier execution must not influence this one)
		w.fresh()
	}
	e := w.env
	e.MustExec(resetSQL)
	o := &Obs{Case: c, DBPool: e.DB.ConnPool}
	if c.Prelude != "" {
		w.car.cur = nil // hooks of the prelude's own statements are no-ops
		func() {
			defer func() {
				if r := recover(); r != nil {
					o.Panic = "prelude: " + fmt.Sprint(r)
				}
			}()
			e.Quiet(func() { prelude(e.DB, c.Prelude) })
		}()
	}
	o.Pre = snapshot(e)
	st := &execState{x: x, env: e, nth: map[string]int{}, body: c.Body}
	w.car.cur = st
	e.Rec.Reset()
	arg := buildArg(c)
	o.Before = walkArg(arg)
	func() {
		defer func() {
			if r := recover(); r != nil {
				o.Panic = fmt.Sprint(r)
			}
		}()
		db := e.DB
		var outer *gorm.DB
		if c.Outer == "begin" {
			outer = db.Begin()
			if outer.Error != nil {
				panic("outer Begin failed: " + outer.Error.Error())
			}
			o.OuterPool = outer.Statement.ConnPool
			db = outer
		}
		if c.Mode == "skiphooks" {
			db = db.Session(&gorm.Session{SkipHooks: true})
		}
		if c.Mode == "skiphooks_newdb" {
			db = db.Session(&gorm.Session{NewDB: true, SkipHooks: true})
		}
		var res *gorm.DB
		switch c.Op {
		case "create":
			res = db.Create(arg)
		case "create_batches":
			res = db.CreateInBatches(arg, c.Batch)
		case "create_batchsize":
			res = db.Session(&gorm.Session{CreateBatchSize: c.Batch}).Create(arg)
		case "save_new", "save_existing", "save_missing":
			res = db.Save(arg)
		case "update":
			if c.Mode == "column" {
				res = db.Model(arg).UpdateColumn("note", "u")
			} else {
				res = db.Model(arg).Update("note", "u")
			}
		case "updates_struct":
			v := reflect.New(c.rootT()).Elem()
			v.FieldByName("Note").SetString("u")
			if c.Mode == "column" {
				res = db.Model(arg).UpdateColumns(v.Interface())
			} else {
				res = db.Model(arg).Updates(v.Interface())
			}
		case "updates_map":
			if c.Mode == "column" {
				res = db.Model(arg).UpdateColumns(map[string]interface{}{"note": "u"})
			} else {
				res = db.Model(arg).Updates(map[string]interface{}{"note": "u"})
			}
		case "delete":
			res = db.Delete(arg)
		case "find_batches":
			q := db.Where("id <= ?", c.Len)
			if c.Kids == "both" {
				q = q.Preload("Pet").Preload("Toys")
			}
			res = q.FindInBatches(arg, c.Batch, func(tx *gorm.DB, batch int) error {
				call := fnCall{Batch: batch, Seq: e.Rec.Len(), Rows: tx.RowsAffected}
				for _, r := range walkArg(arg) {
					if r.Table == c.rootTable() {
						call.IDs = append(call.IDs, r.ID)
					}
				}
				st.fn = append(st.fn, call)
				return nil
			})
		case "find", "first":
			q := db.Where("id <= ?", c.Len)
			if c.Kids == "both" {
				q = q.Preload("Pet").Preload("Toys")
			}
			if c.Op == "find" {
				res = q.Find(arg)
			} else {
				res = q.First(arg)
			}
		default:
			panic("unknown op " + c.Op)
		}
		o.Err = res.Error
		o.Rows = res.RowsAffected
		if outer != nil {
			if res.Error != nil {
				outer.Rollback()
			} else if err := outer.Commit().Error; err != nil {
				panic("outer Commit failed: " + err.Error())
			}
		}
	}()
	w.car.cur = nil
	o.Events = e.Rec.Events()
	o.Leaks = e.Leaks()
	if o.Leaks != "" {
		// a leaked transaction would wedge the dump
		o.Post = map[string][]string{}
		w.fresh()
	} else {
		o.Post = snapshot(e)
	}
	o.After = walkArg(arg)
	if c.Graph != "" {
		_, o.Edges = walkNodes(arg)
	}
	o.Log = st.log
	o.Errs = st.errs
	o.FnCalls = st.fn
	// resolve record identities
	byAddr := map[uintptr]string{}
	byIdent := map[string]record{}
	for _, r := range o.Before {
		if r.Addr != 0 {
			byAddr[r.Addr] = r.Ident
			byIdent[r.Ident] = r
		}
	}
	for _, r := range o.After {
		if r.Addr != 0 {
			byAddr[r.Addr] = r.Ident
			byIdent[r.Ident] = r
		}
	}
	for i := range o.Log {
		ev := &o.Log[i]
		ev.PTable = ev.Table
		if c.Op == "find_batches" {
			// every batch is loaded into the same destination: identity = primary key
			ev.Ident = fmt.Sprintf("%s#%d", ev.Table, ev.ID)
			owner := ev.ID
			if ev.Table == "toys" {
				owner = (ev.ID + 1) / 2
			}
			if owner > 0 {
				ev.Batch = int(owner-1) / c.Batch
			}
			continue
		}
		if !c.isWrite() && ev.Table != c.rootTable() {
			// preloaded children are loaded into temporary values and copied
			// into their parents: identity = primary key
			ev.Ident = fmt.Sprintf("%s#%d", ev.Table, ev.ID)
			continue
		}
		if id, ok := byAddr[ev.Addr]; ok {
			ev.Ident = id
			ev.PTable = byIdent[id].ptable()
			if c.Batch > 0 {
				ev.Batch = byIdent[id].Root / c.Batch
			}
		} else {
			ev.Ident = "?"
		}
	}
	return o
}

// prelude derives handles from db (the handle the operation will use) and
// abandons them or uses them once; none of this may change what db does later.
func prelude(db *gorm.DB, p string) {
	var q *gorm.DB
	switch strings.TrimSuffix(p, "_used") {
	case "sess_skiphooks":
		q = db.Session(&gorm.Session{SkipHooks: true})
	case "sess_newdb_skiphooks":
		q = db.Session(&gorm.Session{NewDB: true, SkipHooks: true})
	case "sess_newdb":
		q = db.Session(&gorm.Session{NewDB: true})
	case "sess_newdb_context":
		q = db.Session(&gorm.Session{NewDB: true, Context: context.Background()})
	case "withcontext":
		q = db.WithContext(context.Background())
	case "debug":
		q = db.Debug()
	case "updatecolumn":
		if err := db.Model(&Owner{ID: 3}).UpdateColumn("note", "p").Error; err != nil {
			panic(err)
		}
		return
	default:
		panic("unknown prelude " + p)
	}
	if strings.HasSuffix(p, "_used") {
		var o Owner
		if err := q.First(&o).Error; err != nil {
			panic(err)
		}
		if err := q.Model(&Owner{ID: 3}).Update("note", "p").Error; err != nil {
			panic(err)
		}
	}
}

// fingerprint: the observation without addresses (determinism check,
// distinct-outcome counter).
func (o *Obs) fingerprint() string {
	var sb strings.Builder
	fmt.Fprintf(&sb, "err=%v panic=%s leaks=%s\n", o.Err, o.Panic, o.Leaks)
	for _, ev := range o.Log {
		fmt.Fprintf(&sb, "%s %s.%s@%d fail=%v marker=%s\n", ev.Ident, ev.Table, ev.Hook, ev.Seq, ev.Fail != nil, ev.MarkerErr)
	}
	for _, ev := range o.Events {
		fmt.Fprintf(&sb, "%s c%d %s\n", ev.Kind, ev.Conn, normSQL(ev.SQL))
	}
	for _, f := range o.FnCalls {
		fmt.Fprintf(&sb, "fn batch=%d @%d ids=%v\n", f.Batch, f.Seq, f.IDs)
	}
	sb.WriteString(snapString(o.Post))
	return sb.String()
}

func normSQL(s string) string { return s }

// outcome: a coarse outcome class for the distinct-outcome counter.
func (o *Obs) outcome() string {
	var hooks []string
	for _, ev := range o.Log {
		f := ""
		if ev.Fail != nil {
			f = "!"
		}
		hooks = append(hooks, ev.Ident+":"+ev.Hook+f)
	}
	errClass := "nil"
	if o.Err != nil {
		errClass = "err"
		if len(o.Errs) > 0 {
			errClass = "hookerr"
		}
	}
	return errClass + "|" + strings.Join(hooks, ",")
}

func (o *Obs) describe() string {
	var sb strings.Builder
	fmt.Fprintf(&sb, "program: %s\n", o.Case)
	fmt.Fprintf(&sb, "err=%v rows=%d panic=%q leaks=%q\n", o.Err, o.Rows, o.Panic, o.Leaks)
	sb.WriteString("in-memory records after the operation:\n")
	for _, r := range o.After {
		fmt.Fprintf(&sb, "  %-14s %s id=%d name=%q\n", r.Ident, r.Table, r.ID, r.Name)
	}
	sb.WriteString("hook log (seq = driver events recorded before the hook):\n")
	for _, ev := range o.Log {
		f := ""
		if ev.Fail != nil {
			f = "  -> returns " + ev.Fail.Error()
		}
		m := ""
		if ev.MarkerErr != "" {
			m = "  marker write failed: " + ev.MarkerErr
		}
		fmt.Fprintf(&sb, "  @%-3d %-14s %s.%s id=%d pool=%s%s%s\n", ev.Seq, ev.Ident, ev.Table, ev.Hook, ev.ID, poolName(o, ev.Pool), m, f)
	}
	for _, f := range o.FnCalls {
		fmt.Fprintf(&sb, "batch function called: batch=%d @%d rows=%d ids in dest=%v\n", f.Batch, f.Seq, f.Rows, f.IDs)
	}
	sb.WriteString("driver log:\n")
	for _, ev := range o.Events {
		fmt.Fprintf(&sb, "  #%-3d %s\n", ev.Seq, ev.String())
	}
	sb.WriteString("tables after:\n" + snapString(o.Post))
	return sb.String()
}

func poolName(o *Obs, p gorm.ConnPool) string {
	switch {
	case p == nil:
		return "nil"
	case p == o.DBPool:
		return "db"
	case o.OuterPool != nil && p == o.OuterPool:
		return "outer-tx"
	}
	return fmt.Sprintf("%T", p)
}

func sortedKeys(m map[string]bool) []string {
	var out []string
	for k := range m {
		out = append(out, k)
	}
	sort.Strings(out)
	return out
}
