// Package fakedial is a gorm dialector over drivers/fakedb whose connection
// pool wrapper counts the cache-level PrepareContext calls gorm makes (the
// driver-level count is not usable: database/sql re-prepares a statement on
// every connection it is used on).
package fakedial

import (
	"context"
	"database/sql"
	"fmt"

	"gorm.io/gorm"
	"gorm.io/gorm/callbacks"
	"gorm.io/gorm/clause"
	"gorm.io/gorm/logger"
	"gorm.io/gorm/schema"
)

type Stats struct {
	DBPrepares map[string]int // pool-level PrepareContext calls per text (outside transactions)
	TxPrepares map[string]int // inside transactions
	Direct     int            // statements executed without going through a prepared statement
	Begins     int
}

func NewStats() *Stats {
	return &Stats{DBPrepares: map[string]int{}, TxPrepares: map[string]int{}}
}

// Pool wraps *sql.DB as a gorm.ConnPool + ConnPoolBeginner + GetDBConnector.
type Pool struct {
	DB *sql.DB
	S  *Stats
}

func (p *Pool) PrepareContext(ctx context.Context, q string) (*sql.Stmt, error) {
	p.S.DBPrepares[q]++
	return p.DB.PrepareContext(ctx, q)
}
func (p *Pool) ExecContext(ctx context.Context, q string, args ...interface{}) (sql.Result, error) {
	p.S.Direct++
	return p.DB.ExecContext(ctx, q, args...)
}
func (p *Pool) QueryContext(ctx context.Context, q string, args ...interface{}) (*sql.Rows, error) {
	p.S.Direct++
	return p.DB.QueryContext(ctx, q, args...)
}
func (p *Pool) QueryRowContext(ctx context.Context, q string, args ...interface{}) *sql.Row {
	p.S.Direct++
	return p.DB.QueryRowContext(ctx, q, args...)
}
func (p *Pool) BeginTx(ctx context.Context, opts *sql.TxOptions) (gorm.ConnPool, error) {
	p.S.Begins++
	tx, err := p.DB.BeginTx(ctx, opts)
	if err != nil {
		return nil, err
	}
	return &Tx{Tx: tx, S: p.S}, nil
}
func (p *Pool) GetDBConn() (*sql.DB, error) { return p.DB, nil }

// Tx wraps *sql.Tx as a gorm.Tx.
type Tx struct {
	Tx *sql.Tx
	S  *Stats
}

func (t *Tx) PrepareContext(ctx context.Context, q string) (*sql.Stmt, error) {
	t.S.TxPrepares[q]++
	return t.Tx.PrepareContext(ctx, q)
}
func (t *Tx) ExecContext(ctx context.Context, q string, args ...interface{}) (sql.Result, error) {
	t.S.Direct++
	return t.Tx.ExecContext(ctx, q, args...)
}
func (t *Tx) QueryContext(ctx context.Context, q string, args ...interface{}) (*sql.Rows, error) {
	t.S.Direct++
	return t.Tx.QueryContext(ctx, q, args...)
}
func (t *Tx) QueryRowContext(ctx context.Context, q string, args ...interface{}) *sql.Row {
	t.S.Direct++
	return t.Tx.QueryRowContext(ctx, q, args...)
}
func (t *Tx) Commit() error   { return t.Tx.Commit() }
func (t *Tx) Rollback() error { return t.Tx.Rollback() }
func (t *Tx) StmtContext(ctx context.Context, stmt *sql.Stmt) *sql.Stmt {
	return t.Tx.StmtContext(ctx, stmt)
}

type Dialector struct {
	Pool gorm.ConnPool
}

func (d Dialector) Name() string { return "fake" }
func (d Dialector) Initialize(db *gorm.DB) error {
	db.ConnPool = d.Pool
	callbacks.RegisterDefaultCallbacks(db, &callbacks.Config{LastInsertIDReversed: true})
	return nil
}
func (d Dialector) Migrator(*gorm.DB) gorm.Migrator { return nil }
func (d Dialector) DataTypeOf(*schema.Field) string  { return "" }
func (d Dialector) DefaultValueOf(*schema.Field) clause.Expression {
	return clause.Expr{SQL: "DEFAULT"}
}
func (d Dialector) BindVarTo(w clause.Writer, stmt *gorm.Statement, v interface{}) { w.WriteByte('?') }
func (d Dialector) QuoteTo(w clause.Writer, s string) {
	w.WriteByte('`')
	w.WriteString(s)
	w.WriteByte('`')
}
func (d Dialector) Explain(sql string, vars ...interface{}) string {
	return logger.ExplainSQL(sql, nil, `"`, vars...)
}
func (d Dialector) SavePoint(tx *gorm.DB, name string) error {
	return tx.Exec("SAVEPOINT " + name).Error
}
func (d Dialector) RollbackTo(tx *gorm.DB, name string) error {
	return tx.Exec("ROLLBACK TO SAVEPOINT " + name).Error
}

var _ = fmt.Sprint
