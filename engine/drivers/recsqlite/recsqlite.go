// Package recsqlite wraps mattn/go-sqlite3 in a database/sql driver that
// records every driver call (kind, SQL, args, context, connection) and offers
// a fault hook in front of each call.
package recsqlite

import (
	"context"
	"database/sql"
	"database/sql/driver"
	"errors"
	"fmt"
	"strings"
	"sync"
	"sync/atomic"

	sqlite3 "github.com/mattn/go-sqlite3"
)

var ErrInjected = errors.New("verif: injected driver fault")

type Event struct {
	Seq  int
	Kind string // open begin commit rollback prepare exec query stmt_exec stmt_query stmt_close
	SQL  string
	Args []driver.NamedValue
	Ctx  context.Context
	Conn int
	Err  error
	Injected bool
}

func (e Event) String() string {
	var a []string
	for _, v := range e.Args {
		a = append(a, fmt.Sprintf("%T(%v)", v.Value, v.Value))
	}
	s := fmt.Sprintf("%s c%d %q [%s]", e.Kind, e.Conn, e.SQL, strings.Join(a, ", "))
	if e.Err != nil {
		s += " ERR=" + e.Err.Error()
	}
	return s
}

// IsStatement reports whether the event carries SQL towards the database
// (prepare/exec/query in any form) as opposed to transaction control.
func (e Event) IsStatement() bool {
	switch e.Kind {
	case "prepare", "exec", "query", "stmt_exec", "stmt_query":
		return true
	}
	return false
}

type Recorder struct {
	mu     sync.Mutex
	events []Event
	// Fault, when set, is consulted before every recorded call; a non-nil
	// return is handed to the caller instead of executing the call.
	Fault func(ev *Event) error
	// RowFault, when set, is consulted before every row a result set hands out
	// (row = number of rows already delivered by this result set); a non-nil
	// return ends the iteration with that error (rows.Err()), as a connection
	// dropped or a context cancelled in the middle of a result set does. The
	// event is the recorded query the result set belongs to.
	RowFault func(ev *Event, row int) error
	// Off suspends recording and faults (used by the harness' own dump queries).
	Off int32

	OpenTx    int32
	OpenStmts int32
	OpenRows  int32
	conns     int32
}

func (r *Recorder) Pause()  { atomic.AddInt32(&r.Off, 1) }
func (r *Recorder) Resume() { atomic.AddInt32(&r.Off, -1) }

func (r *Recorder) Events() []Event {
	r.mu.Lock()
	defer r.mu.Unlock()
	return append([]Event(nil), r.events...)
}
func (r *Recorder) Reset() {
	r.mu.Lock()
	r.events = nil
	r.mu.Unlock()
}
func (r *Recorder) Len() int { r.mu.Lock(); defer r.mu.Unlock(); return len(r.events) }

// record registers the event and asks the fault hook.
func (r *Recorder) record(ev *Event) error {
	if atomic.LoadInt32(&r.Off) > 0 {
		return nil
	}
	r.mu.Lock()
	ev.Seq = len(r.events)
	f := r.Fault
	r.mu.Unlock()
	var err error
	if f != nil {
		err = f(ev)
	}
	if err != nil {
		ev.Err = err
		ev.Injected = true
	}
	r.mu.Lock()
	r.events = append(r.events, *ev)
	r.mu.Unlock()
	return err
}

func (r *Recorder) setErr(seq int, err error) {
	if err == nil || atomic.LoadInt32(&r.Off) > 0 {
		return
	}
	r.mu.Lock()
	if seq < len(r.events) {
		r.events[seq].Err = err
	}
	r.mu.Unlock()
}

type connector struct {
	dsn string
	rec *Recorder
	drv *sqlite3.SQLiteDriver
}

func (c *connector) Connect(ctx context.Context) (driver.Conn, error) {
	inner, err := c.drv.Open(c.dsn)
	if err != nil {
		return nil, err
	}
	id := int(atomic.AddInt32(&c.rec.conns, 1))
	return &conn{inner: inner.(*sqlite3.SQLiteConn), rec: c.rec, id: id}, nil
}
func (c *connector) Driver() driver.Driver { return c.drv }

var dbCounter int64

// UniqueDSN returns a DSN for a fresh shared-cache in-memory database.
func UniqueDSN() string {
	n := atomic.AddInt64(&dbCounter, 1)
	return fmt.Sprintf("file:verifmem%d?mode=memory&cache=shared&_busy_timeout=50", n)
}

// Open opens a *sql.DB on a fresh in-memory SQLite database behind rec.
func Open(rec *Recorder) *sql.DB {
	return OpenDSN(rec, UniqueDSN())
}

func OpenDSN(rec *Recorder, dsn string) *sql.DB {
	return sql.OpenDB(&connector{dsn: dsn, rec: rec, drv: &sqlite3.SQLiteDriver{}})
}

// OpenDSNPragmas is OpenDSN with PRAGMA statements executed on every new connection.
func OpenDSNPragmas(rec *Recorder, dsn string, pragmas ...string) *sql.DB {
	d := &sqlite3.SQLiteDriver{ConnectHook: func(c *sqlite3.SQLiteConn) error {
		for _, p := range pragmas {
			if _, err := c.Exec(p, nil); err != nil {
				return err
			}
		}
		return nil
	}}
	return sql.OpenDB(&connector{dsn: dsn, rec: rec, drv: d})
}

type conn struct {
	inner *sqlite3.SQLiteConn
	rec   *Recorder
	id    int
}

func (c *conn) Prepare(query string) (driver.Stmt, error) {
	return c.PrepareContext(context.Background(), query)
}
func (c *conn) Close() error { return c.inner.Close() }
func (c *conn) Begin() (driver.Tx, error) {
	return c.BeginTx(context.Background(), driver.TxOptions{})
}
func (c *conn) Ping(ctx context.Context) error { return c.inner.Ping(ctx) }

func (c *conn) BeginTx(ctx context.Context, opts driver.TxOptions) (driver.Tx, error) {
	ev := &Event{Kind: "begin", Ctx: ctx, Conn: c.id}
	if err := c.rec.record(ev); err != nil {
		return nil, err
	}
	t, err := c.inner.BeginTx(ctx, opts)
	if err != nil {
		c.rec.setErr(ev.Seq, err)
		return nil, err
	}
	paused := atomic.LoadInt32(&c.rec.Off) > 0
	if !paused {
		atomic.AddInt32(&c.rec.OpenTx, 1)
	}
	return &tx{inner: t, c: c, counted: !paused}, nil
}

func (c *conn) PrepareContext(ctx context.Context, query string) (driver.Stmt, error) {
	ev := &Event{Kind: "prepare", SQL: query, Ctx: ctx, Conn: c.id}
	if err := c.rec.record(ev); err != nil {
		return nil, err
	}
	s, err := c.inner.PrepareContext(ctx, query)
	if err != nil {
		c.rec.setErr(ev.Seq, err)
		return nil, err
	}
	paused := atomic.LoadInt32(&c.rec.Off) > 0
	if !paused {
		atomic.AddInt32(&c.rec.OpenStmts, 1)
	}
	return &stmt{inner: s.(*sqlite3.SQLiteStmt), c: c, sql: query, counted: !paused}, nil
}

func (c *conn) ExecContext(ctx context.Context, query string, args []driver.NamedValue) (driver.Result, error) {
	ev := &Event{Kind: "exec", SQL: query, Args: append([]driver.NamedValue(nil), args...), Ctx: ctx, Conn: c.id}
	if err := c.rec.record(ev); err != nil {
		return nil, err
	}
	res, err := c.inner.ExecContext(ctx, query, args)
	c.rec.setErr(ev.Seq, err)
	return res, err
}

func (c *conn) QueryContext(ctx context.Context, query string, args []driver.NamedValue) (driver.Rows, error) {
	ev := &Event{Kind: "query", SQL: query, Args: append([]driver.NamedValue(nil), args...), Ctx: ctx, Conn: c.id}
	if err := c.rec.record(ev); err != nil {
		return nil, err
	}
	rows, err := c.inner.QueryContext(ctx, query, args)
	if err != nil {
		c.rec.setErr(ev.Seq, err)
		return nil, err
	}
	return c.rec.wrapRows(ev, rows), nil
}

func (c *conn) ResetSession(ctx context.Context) error { return nil }
func (c *conn) IsValid() bool                          { return true }

type tx struct {
	inner   driver.Tx
	c       *conn
	counted bool
}

func (t *tx) done() {
	if t.counted {
		atomic.AddInt32(&t.c.rec.OpenTx, -1)
		t.counted = false
	}
}

func (t *tx) Commit() error {
	ev := &Event{Kind: "commit", Conn: t.c.id}
	if err := t.c.rec.record(ev); err != nil {
		// a failed commit: the database has aborted the transaction
		t.inner.Rollback()
		t.done()
		return err
	}
	err := t.inner.Commit()
	t.c.rec.setErr(ev.Seq, err)
	t.done()
	return err
}

func (t *tx) Rollback() error {
	ev := &Event{Kind: "rollback", Conn: t.c.id}
	t.c.rec.record(ev) // faults on rollback are never injected (hook must return nil)
	err := t.inner.Rollback()
	t.c.rec.setErr(ev.Seq, err)
	t.done()
	return err
}

type stmt struct {
	inner   *sqlite3.SQLiteStmt
	c       *conn
	sql     string
	counted bool
	closed  bool
}

func (s *stmt) Close() error {
	if !s.closed {
		s.closed = true
		ev := &Event{Kind: "stmt_close", SQL: s.sql, Conn: s.c.id}
		s.c.rec.record(ev)
		if s.counted {
			atomic.AddInt32(&s.c.rec.OpenStmts, -1)
		}
	}
	return s.inner.Close()
}
func (s *stmt) NumInput() int { return s.inner.NumInput() }
func (s *stmt) Exec(args []driver.Value) (driver.Result, error) {
	return nil, errors.New("recsqlite: legacy Exec not supported")
}
func (s *stmt) Query(args []driver.Value) (driver.Rows, error) {
	return nil, errors.New("recsqlite: legacy Query not supported")
}
func (s *stmt) ExecContext(ctx context.Context, args []driver.NamedValue) (driver.Result, error) {
	ev := &Event{Kind: "stmt_exec", SQL: s.sql, Args: append([]driver.NamedValue(nil), args...), Ctx: ctx, Conn: s.c.id}
	if err := s.c.rec.record(ev); err != nil {
		return nil, err
	}
	res, err := s.inner.ExecContext(ctx, args)
	s.c.rec.setErr(ev.Seq, err)
	return res, err
}
func (s *stmt) QueryContext(ctx context.Context, args []driver.NamedValue) (driver.Rows, error) {
	ev := &Event{Kind: "stmt_query", SQL: s.sql, Args: append([]driver.NamedValue(nil), args...), Ctx: ctx, Conn: s.c.id}
	if err := s.c.rec.record(ev); err != nil {
		return nil, err
	}
	rows, err := s.inner.QueryContext(ctx, args)
	if err != nil {
		s.c.rec.setErr(ev.Seq, err)
		return nil, err
	}
	return s.c.rec.wrapRows(ev, rows), nil
}

// faultRows hands out the rows of the real result set until RowFault says stop.
// Embedding keeps every optional driver interface of SQLiteRows (column types).
type faultRows struct {
	*sqlite3.SQLiteRows
	rec  *Recorder
	ev   Event
	n    int
	dead error
}

func (r *Recorder) wrapRows(ev *Event, rows driver.Rows) driver.Rows {
	if r.RowFault == nil || atomic.LoadInt32(&r.Off) > 0 {
		return rows
	}
	sr, ok := rows.(*sqlite3.SQLiteRows)
	if !ok {
		return rows
	}
	return &faultRows{SQLiteRows: sr, rec: r, ev: *ev}
}

func (fr *faultRows) Next(dest []driver.Value) error {
	if fr.dead != nil {
		return fr.dead
	}
	if f := fr.rec.RowFault; f != nil && atomic.LoadInt32(&fr.rec.Off) == 0 {
		if err := f(&fr.ev, fr.n); err != nil {
			fr.dead = err
			fr.rec.setErr(fr.ev.Seq, err)
			return err
		}
	}
	err := fr.SQLiteRows.Next(dest)
	if err == nil {
		fr.n++
	}
	return err
}
