package recsqlite

import (
	"errors"
	"testing"
)

func TestRowFault(t *testing.T) {
	rec := &Recorder{}
	db := Open(rec)
	defer db.Close()
	rec.Pause()
	if _, err := db.Exec("CREATE TABLE t(a integer); INSERT INTO t VALUES (1),(2),(3)"); err != nil {
		t.Fatal(err)
	}
	rec.Resume()
	boom := errors.New("boom")
	for k := 0; k <= 4; k++ {
		k := k
		rec.RowFault = func(ev *Event, row int) error {
			if row == k {
				return boom
			}
			return nil
		}
		rows, err := db.Query("SELECT a FROM t ORDER BY a")
		if err != nil {
			t.Fatal(err)
		}
		n := 0
		for rows.Next() {
			n++
		}
		want, wantErr := k, boom
		if k > 3 {
			want, wantErr = 3, nil
		}
		if k == 3 {
			want = 3 // fault hits the end-of-rows call
		}
		if n != want || rows.Err() != wantErr {
			t.Fatalf("k=%d: rows=%d err=%v", k, n, rows.Err())
		}
		rows.Close()
	}
}
