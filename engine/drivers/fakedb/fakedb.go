// Package fakedb is a pure-Go, non-blocking, deterministic in-memory
// database/sql driver for the scheduled checks: a key/value table, a handful
// of statement shapes, counters of driver statements, scheduling points and
// fault choices in front of every driver call.
//
// Statement shapes (recognised by their first word, arguments positional):
//   SELECT … : args[0] = key            -> one row (v) or none
//   UPDATE … / INSERT … : args[0] = value, args[1] = key -> sets kv[key]=value
//   anything else: no-op exec
package fakedb

import (
	"context"
	"database/sql"
	"database/sql/driver"
	"errors"
	"fmt"
	"io"
	"sort"
	"strings"

	"verif/sched"
)

var ErrPrepare = errors.New("fakedb: injected prepare failure")

type Options struct {
	FaultPrepare bool // offer a "Prepare fails" choice at every driver Prepare
	FaultBadConn bool // offer a "connection is bad" choice at every statement exec/query
	Points       bool // scheduling point before every driver call
}

type DB struct {
	Opt  Options
	KV   map[string]int64
	// counters (driver level)
	Prepared   map[string]int
	Closed     map[string]int
	OpenStmts  int
	OpenConns  int
	Conns      int
	OpenTx     int
	OpenRows   int
	Log        []string
	KeepLog    bool
}

func New(opt Options) *DB {
	return &DB{Opt: opt, KV: map[string]int64{}, Prepared: map[string]int{}, Closed: map[string]int{}}
}

func (d *DB) logf(format string, a ...interface{}) {
	if d.KeepLog {
		tid := -1
		if t := sched.CurThread(); t != nil {
			tid = t.ID
		}
		d.Log = append(d.Log, fmt.Sprintf("T%d ", tid)+fmt.Sprintf(format, a...))
	}
}

func (d *DB) point(label string) {
	if d.Opt.Points {
		sched.Point(label)
	}
}

// OpenSQL returns a *sql.DB over this fake database.
func (d *DB) OpenSQL() *sql.DB { return sql.OpenDB(&connector{d}) }

type connector struct{ d *DB }

func (c *connector) Connect(ctx context.Context) (driver.Conn, error) {
	c.d.Conns++
	c.d.OpenConns++
	cn := &conn{d: c.d, id: c.d.Conns}
	c.d.logf("open conn c%d", cn.id)
	return cn, nil
}
func (c *connector) Driver() driver.Driver { return drv{} }

type drv struct{}

func (drv) Open(string) (driver.Conn, error) { return nil, errors.New("fakedb: use OpenSQL") }

type conn struct {
	d      *DB
	id     int
	bad    bool
	closed bool
	tx     map[string]int64 // write overlay of the open transaction (nil = none)
	stmts  map[*stmt]bool
}

func (c *conn) Prepare(q string) (driver.Stmt, error) { return c.PrepareContext(context.Background(), q) }

func (c *conn) PrepareContext(ctx context.Context, q string) (driver.Stmt, error) {
	c.d.point("drv.prepare")
	if c.bad {
		return nil, driver.ErrBadConn
	}
	if c.d.Opt.FaultPrepare && sched.Choose(2, "prepare-fails", 1) == 1 {
		c.d.logf("prepare c%d %q -> injected failure", c.id, q)
		return nil, ErrPrepare
	}
	s := &stmt{c: c, q: q}
	c.d.Prepared[q]++
	c.d.OpenStmts++
	c.d.logf("prepare c%d %q", c.id, q)
	return s, nil
}

func (c *conn) Close() error {
	if !c.closed {
		c.closed = true
		c.d.OpenConns--
		c.d.logf("close conn c%d", c.id)
	}
	return nil
}

func (c *conn) Begin() (driver.Tx, error) { return c.BeginTx(context.Background(), driver.TxOptions{}) }

func (c *conn) BeginTx(ctx context.Context, opts driver.TxOptions) (driver.Tx, error) {
	c.d.point("drv.begin")
	if c.bad {
		return nil, driver.ErrBadConn
	}
	c.tx = map[string]int64{}
	c.d.OpenTx++
	c.d.logf("begin c%d", c.id)
	return &tx{c}, nil
}

func (c *conn) IsValid() bool                          { return !c.bad }
func (c *conn) ResetSession(ctx context.Context) error { return nil }

type tx struct{ c *conn }

func (t *tx) Commit() error {
	t.c.d.point("drv.commit")
	for k, v := range t.c.tx {
		t.c.d.KV[k] = v
	}
	t.c.tx = nil
	t.c.d.OpenTx--
	t.c.d.logf("commit c%d", t.c.id)
	return nil
}

func (t *tx) Rollback() error {
	t.c.d.point("drv.rollback")
	t.c.tx = nil
	t.c.d.OpenTx--
	t.c.d.logf("rollback c%d", t.c.id)
	return nil
}

type stmt struct {
	c      *conn
	q      string
	closed bool
}

func (s *stmt) Close() error {
	if !s.closed {
		s.closed = true
		s.c.d.Closed[s.q]++
		s.c.d.OpenStmts--
		s.c.d.logf("close stmt c%d %q", s.c.id, s.q)
	}
	return nil
}

func (s *stmt) NumInput() int { return -1 }

func (s *stmt) Exec(args []driver.Value) (driver.Result, error) {
	return nil, errors.New("fakedb: legacy Exec")
}
func (s *stmt) Query(args []driver.Value) (driver.Rows, error) {
	return nil, errors.New("fakedb: legacy Query")
}

// badConn decides whether this driver call reports ErrBadConn. The answer is
// sticky for the rest of the logical call of the running thread (database/sql
// retries a bad connection up to three times; a new choice per retry would
// only multiply equivalent executions).
func (s *stmt) badConn() bool {
	if !s.c.d.Opt.FaultBadConn {
		return false
	}
	t := sched.CurThread()
	if t != nil {
		if v, ok := t.Local["badconn"]; ok {
			return v.(bool)
		}
	}
	bad := sched.Choose(2, "bad-conn", 1) == 1
	if t != nil {
		t.Local["badconn"] = bad
	}
	return bad
}

// BeginOp must be called by a harness thread before each logical operation.
func BeginOp() {
	if t := sched.CurThread(); t != nil {
		delete(t.Local, "badconn")
	}
}

func (s *stmt) ExecContext(ctx context.Context, args []driver.NamedValue) (driver.Result, error) {
	s.c.d.point("drv.exec")
	if s.closed {
		return nil, errors.New("fakedb: exec on closed driver statement")
	}
	if s.badConn() {
		s.c.bad = true
		s.c.d.logf("exec c%d %q -> ErrBadConn", s.c.id, s.q)
		return nil, driver.ErrBadConn
	}
	up := strings.ToUpper(strings.TrimSpace(s.q))
	if strings.HasPrefix(up, "UPDATE") || strings.HasPrefix(up, "INSERT") {
		if len(args) < 2 {
			return nil, fmt.Errorf("fakedb: %q needs 2 args", s.q)
		}
		v, _ := args[0].Value.(int64)
		k := fmt.Sprint(args[1].Value)
		if s.c.tx != nil {
			s.c.tx[k] = v
		} else {
			s.c.d.KV[k] = v
		}
		s.c.d.logf("exec c%d %q k=%s v=%d", s.c.id, s.q, k, v)
		return driver.RowsAffected(1), nil
	}
	s.c.d.logf("exec c%d %q", s.c.id, s.q)
	return driver.RowsAffected(0), nil
}

func (s *stmt) QueryContext(ctx context.Context, args []driver.NamedValue) (driver.Rows, error) {
	s.c.d.point("drv.query")
	if s.closed {
		return nil, errors.New("fakedb: query on closed driver statement")
	}
	if s.badConn() {
		s.c.bad = true
		s.c.d.logf("query c%d %q -> ErrBadConn", s.c.id, s.q)
		return nil, driver.ErrBadConn
	}
	r := &rows{d: s.c.d}
	if len(args) >= 1 {
		k := fmt.Sprint(args[0].Value)
		if s.c.tx != nil {
			if v, ok := s.c.tx[k]; ok {
				r.vals = append(r.vals, v)
			} else if v, ok := s.c.d.KV[k]; ok {
				r.vals = append(r.vals, v)
			}
		} else if v, ok := s.c.d.KV[k]; ok {
			r.vals = append(r.vals, v)
		}
	}
	s.c.d.OpenRows++
	s.c.d.logf("query c%d %q -> %v", s.c.id, s.q, r.vals)
	return r, nil
}

type rows struct {
	d      *DB
	vals   []int64
	i      int
	closed bool
}

func (r *rows) Columns() []string { return []string{"v"} }
func (r *rows) Close() error {
	if !r.closed {
		r.closed = true
		r.d.OpenRows--
	}
	return nil
}
func (r *rows) Next(dest []driver.Value) error {
	if r.i >= len(r.vals) {
		return io.EOF
	}
	dest[0] = r.vals[r.i]
	r.i++
	return nil
}

// Snapshot renders the table deterministically.
func (d *DB) Snapshot() string {
	keys := make([]string, 0, len(d.KV))
	for k := range d.KV {
		keys = append(keys, k)
	}
	sort.Strings(keys)
	var sb strings.Builder
	for _, k := range keys {
		fmt.Fprintf(&sb, "%s=%d;", k, d.KV[k])
	}
	return sb.String()
}
